//! Block catalogue: one `BlockSpec` variant per library block (and per harness-defined
//! derive block), with its parameter strategy, input domain, constructor glue, minimum
//! stream capacity, tag rule and (where the documentation determines it) reference model.
use proptest::prelude::*;
use rustradio::Complex;
use rustradio::block::Block;
use rustradio::blocks::*;
use rustradio::stream::{ReadStream, TagValue};
use rustradio::window::WindowType;
use serde::{Deserialize, Serialize};

use crate::drip::*;
use crate::gens::*;
use crate::refmodel as rm;

#[derive(Clone, Debug, Serialize, Deserialize, PartialEq)]
pub struct TapSpec {
    pub n: u16,
    /// 0 random, 1 low-pass design, 2 impulse, 3 moving average
    pub kind: u8,
    pub seed: u32,
}
impl TapSpec {
    pub fn taps(&self) -> Vec<f32> {
        let n = self.n.max(1) as usize;
        let mut r = XRng::new(self.seed as u64 ^ 0x7a95);
        match self.kind % 4 {
            0 => (0..n).map(|_| r.unit()).collect(),
            1 => {
                // windowed sinc written here (not the library's designer)
                let fc = 0.05 + (self.seed % 40) as f32 / 100.0;
                let m = (n - 1) as f32 / 2.0;
                (0..n)
                    .map(|i| {
                        let t = i as f32 - m;
                        let s = if t == 0.0 { 2.0 * fc } else { (std::f32::consts::TAU * fc * t).sin() / (std::f32::consts::PI * t) };
                        let w = 0.54 - 0.46 * (std::f32::consts::TAU * i as f32 / (n.max(2) - 1) as f32).cos();
                        s * w
                    })
                    .collect()
            }
            2 => {
                let mut v = vec![0.0; n];
                v[self.seed as usize % n] = 1.0;
                v
            }
            _ => vec![1.0 / n as f32; n],
        }
    }
    pub fn ctaps(&self) -> Vec<Complex> {
        let re = self.taps();
        if self.kind % 4 == 0 {
            let mut r = XRng::new(self.seed as u64 ^ 0x1234);
            re.into_iter().map(|x| Complex::new(x, r.unit())).collect()
        } else {
            re.into_iter().map(|x| Complex::new(x, 0.0)).collect()
        }
    }
}
pub fn tapspec_strategy(max_n: u16) -> impl Strategy<Value = TapSpec> {
    (
        prop_oneof![1u16..4, 1u16..20, 1u16..=max_n],
        0u8..4,
        any::<u32>(),
    )
        .prop_map(|(n, kind, seed)| TapSpec { n, kind, seed })
}

pub fn window_of(w: u8) -> WindowType {
    match w % 4 {
        0 => WindowType::Hamming,
        1 => WindowType::HammingParm(0.54),
        2 => WindowType::Blackman,
        _ => WindowType::BlackmanHarris,
    }
}

#[derive(Clone, Debug, Serialize, Deserialize, PartialEq)]
pub enum BlockSpec {
    AddConstF32 { val: f32 },
    AddConstC32 { re: f32, im: f32 },
    AddConstU32 { val: u32 },
    MulConstF32 { val: f32 },
    MulConstC32 { re: f32, im: f32 },
    XorConstU8 { val: u8 },
    XorU8,
    AddF32,
    FloatToComplex,
    BinarySlicer,
    ComplexToMag2,
    Nrzi,
    Descrambler { mask: u64, seed: u64, len: u8 },
    Cac { code: Vec<u8>, allowed: u8 },
    CacTag { code: Vec<u8>, allowed: u8 },
    QuadDemod { gain: f32 },
    FastFm,
    IirF32 { alpha: f32 },
    IirC32 { alpha: f32 },
    MapAddConstF32 { val: f32 },
    BurstTaggerU32 { threshold: f32 },
    TeeU8,
    TeeF32,
    SkipU8 { skip: u32 },
    SkipF32 { skip: u32 },
    DelayU8 { delay: u32 },
    DelayF32 { delay: u32 },
    /// Delay<u8> with set_delay(): `early` delays set before anything ran, `mid = (at, d)` once
    /// exactly `at` samples have passed (harness composite `derived::DelayRetune`)
    /// `mid_pre`: further set_delay() values applied right before the final mid value, with
    /// no work() in between (the delay line only sees the last one)
    DelayRetuneU8 { d0: u16, early: Vec<u16>, mid: Option<(u16, u16)>, #[serde(default)] mid_pre: Vec<u16> },
    ResampU8 { interp: u16, deci: u16 },
    ResampF32 { interp: u16, deci: u16 },
    FirF32 { taps: TapSpec, deci: u8 },
    FirC32 { taps: TapSpec, deci: u8 },
    FftFilter { taps: TapSpec },
    FftFilterFloat { taps: TapSpec },
    Hilbert { half: u8, window: u8 },
    AuEncode,
    AuDecode,
    RtlSdrDecode,
    /// `clk`: also take the optional clock output stream (`out_clock()`)
    SymbolSync { sps: f32, maxdev: f32, t0: f32, t1: f32, #[serde(default)] clk: bool },
    ZeroCrossing { sps: f32, #[serde(default)] clk: bool },
    Hdlc { min: u16, max: u16, checksum: bool, fix: bool },
    Il2p,
    StreamToPduU8 { max: u16, tail: u8 },
    StreamToPduF32 { max: u16, tail: u8 },
    VecToStreamU8,
    ToTextU8 { n: u8 },
    ToTextF32 { n: u8 },
    FftStream { size: u8, #[serde(default)] threaded: bool },
    // sources and sinks (C09 / C16)
    VectorSourceU8 { len: u32, repeat: u8 },
    ConstantSourceF32 { val: f32 },
    SignalSourceF32,
    SignalSourceC32,
    NullSinkU8,
    VectorSinkU8 { max: u32 },
    /// harness-defined derive blocks (C19); kind: see `derived.rs`
    Derived { kind: u8, k: u32 },
    // file-backed sources (C16)
    FileSourceU8 { len: u32, repeat: u8 },
    /// file of 24-bit samples (user-defined Sample type, 3 bytes serialised)
    FileSourceS24 { len: u32, repeat: u8 },
    /// `dangle`: 1-3 bytes of a partial sample after the last whole one (only used with
    /// repeat 0 or 1: what a repeated partial sample means is not defined)
    FileSourceF32 { len: u32, repeat: u8, #[serde(default)] dangle: u8 },
    /// SigMF source of rf32_le data; `archive`: tar archive instead of a recording pair
    /// `opts`: bit 0 = builder option ignore_type_error(), bit 1 = builder option sample_rate()
    SigMFSourceF32 { len: u32, repeat: u8, archive: bool, #[serde(default)] opts: u8 },
}

pub fn repeat_of(r: u8) -> rustradio::Repeat {
    if r == 255 { rustradio::Repeat::infinite() } else { rustradio::Repeat::finite(r as u64) }
}

/// Finite sources for C16.
pub fn finite_source_strategy() -> BoxedStrategy<BlockSpec> {
    use BlockSpec::*;
    let len = || prop_oneof![1 => 0u32..4, 2 => 0u32..3000, 2 => 0u32..14000];
    let rep = || prop_oneof![1 => Just(0u8), 2 => Just(1u8), 2 => Just(2u8), 1 => Just(3u8), 1 => Just(255u8)];
    prop_oneof![
        (len(), rep()).prop_map(|(len, repeat)| VectorSourceU8 { len, repeat }),
        (len(), rep()).prop_map(|(len, repeat)| FileSourceU8 { len, repeat }),
        (len(), rep(), prop_oneof![3 => Just(0u8), 1 => 1u8..4]).prop_map(|(len, repeat, dangle)| FileSourceF32 { len: len / 2, repeat, dangle }),
        (len(), rep()).prop_map(|(len, repeat)| FileSourceS24 { len, repeat }),
        (len(), rep(), any::<bool>(), 0u8..4).prop_map(|(len, repeat, archive, opts)| SigMFSourceF32 { len: len / 2, repeat, archive, opts }),
    ]
    .boxed()
}

/// 24-bit signed values (sign-extended), pseudo-random
pub fn s24_source_data(len: u32) -> Vec<i32> {
    let mut r = crate::gens::XRng::new(len as u64 ^ 0x524);
    (0..len).map(|_| ((r.next() as i32) << 8) >> 8).collect()
}

pub fn f32_source_data(len: u32) -> Vec<f32> {
    (0..len).map(|i| i as f32 * 0.5 - 100.0).collect()
}
pub const SIGMF_META_F32: &str = r#"{"global":{"core:datatype":"rf32_le","core:version":"1.1.0","core:sample_rate":48000.0},"captures":[{"core:sample_start":0}],"annotations":[]}"#;

pub const DERIVED_KINDS: u8 = 10;
pub fn derived_shape(kind: u8) -> (usize, usize) {
    // (inputs, sample outputs)
    match kind {
        0 => (1, 1),
        1 => (1, 2),
        2 => (1, 3),
        3 => (2, 1),
        4 => (2, 2),
        5 => (2, 3),
        6 => (1, 1),
        7 => (2, 1),
        8 => (1, 1),
        _ => (1, 1),
    }
}
pub fn derived_strategy() -> BoxedStrategy<BlockSpec> {
    (0u8..DERIVED_KINDS, 0u32..1000).prop_map(|(kind, k)| BlockSpec::Derived { kind, k }).boxed()
}

/// Sources and sinks: driven like any block, but without the chunking twin.
pub fn source_sink_strategy() -> BoxedStrategy<BlockSpec> {
    use BlockSpec::*;
    prop_oneof![
        2 => (prop_oneof![0u32..4, 0u32..3000, 0u32..14000], prop_oneof![0u8..4, Just(255u8)]).prop_map(|(len, repeat)| VectorSourceU8 { len, repeat }),
        1 => fval().prop_map(|val| ConstantSourceF32 { val }),
        1 => Just(SignalSourceF32),
        1 => Just(SignalSourceC32),
        1 => Just(NullSinkU8),
        2 => prop_oneof![0u32..4, 0u32..20000].prop_map(|max| VectorSinkU8 { max }),
    ]
    .boxed()
}

fn fin(x: f32) -> f32 {
    if x.is_finite() { x } else { 1.0 }
}
fn fval() -> impl Strategy<Value = f32> {
    prop_oneof![
        Just(0.0f32),
        Just(1.0f32),
        Just(-1.0f32),
        (-1000i32..1000).prop_map(|x| x as f32 / 8.0),
        any::<f32>().prop_map(fin),
    ]
}

pub fn spec_strategy() -> BoxedStrategy<BlockSpec> {
    use BlockSpec::*;
    let bits_code = prop::collection::vec(0u8..2, 0..40);
    prop_oneof![
        fval().prop_map(|val| AddConstF32 { val }),
        (fval(), fval()).prop_map(|(re, im)| AddConstC32 { re, im }),
        (0u32..1000).prop_map(|val| AddConstU32 { val }),
        fval().prop_map(|val| MulConstF32 { val }),
        (fval(), fval()).prop_map(|(re, im)| MulConstC32 { re, im }),
        any::<u8>().prop_map(|val| XorConstU8 { val }),
        Just(XorU8),
        Just(AddF32),
        Just(FloatToComplex),
        Just(BinarySlicer),
        Just(ComplexToMag2),
        Just(Nrzi),
        (any::<u64>(), any::<u64>(), 0u8..64).prop_map(|(mask, seed, len)| Descrambler { mask, seed, len }),
        (bits_code.clone(), 0u8..4).prop_map(|(code, allowed)| Cac { code, allowed }),
        (bits_code, 0u8..4).prop_map(|(code, allowed)| CacTag { code, allowed }),
        fval().prop_map(|gain| QuadDemod { gain }),
        Just(FastFm),
        (0u32..=1000).prop_map(|a| IirF32 { alpha: a as f32 / 1000.0 }),
        (0u32..=1000).prop_map(|a| IirC32 { alpha: a as f32 / 1000.0 }),
        fval().prop_map(|val| MapAddConstF32 { val }),
        prop_oneof![8 => (-100i32..100).prop_map(|t| t as f32 / 100.0), 1 => Just(-0.0f32), 1 => Just(0.0f32)].prop_map(|threshold| BurstTaggerU32 { threshold }),
        Just(TeeU8),
        Just(TeeF32),
        prop_oneof![0u32..4, 0u32..6000, 0u32..14000].prop_map(|skip| SkipU8 { skip }),
        prop_oneof![0u32..4, 0u32..3000].prop_map(|skip| SkipF32 { skip }),
        prop_oneof![0u32..4, 0u32..6000, 0u32..14000].prop_map(|delay| DelayU8 { delay }),
        prop_oneof![0u32..4, 0u32..3000].prop_map(|delay| DelayF32 { delay }),
        (
            prop_oneof![0u16..6, 0u16..60, 0u16..3000],
            prop::collection::vec(prop_oneof![0u16..6, 0u16..60, 0u16..3000], 0..3),
            prop::option::weighted(0.7, (prop_oneof![0u16..10, 0u16..600, 0u16..6000], prop_oneof![0u16..6, 0u16..60, 0u16..3000])),
            prop_oneof![3 => Just(Vec::new()), 2 => prop::collection::vec(prop_oneof![0u16..6, 0u16..60, 0u16..3000], 1..3)],
        )
            .prop_map(|(d0, early, mid, mid_pre)| DelayRetuneU8 { d0, early, mid, mid_pre }),
        (1u16..13, 1u16..13).prop_map(|(interp, deci)| ResampU8 { interp, deci }),
        (1u16..13, 1u16..13).prop_map(|(interp, deci)| ResampF32 { interp, deci }),
        (tapspec_strategy(200), 1u8..9).prop_map(|(taps, deci)| FirF32 { taps, deci }),
        (tapspec_strategy(120), 1u8..9).prop_map(|(taps, deci)| FirC32 { taps, deci }),
        tapspec_strategy(120).prop_map(|taps| FftFilter { taps }),
        tapspec_strategy(120).prop_map(|taps| FftFilterFloat { taps }),
        (0u8..40, 0u8..4).prop_map(|(half, window)| Hilbert { half, window }),
        Just(AuEncode),
        Just(AuDecode),
        Just(RtlSdrDecode),
        // half of the cases with few samples per symbol: the outputs fill up within one case
        (prop_oneof![11u32..600, 11u32..30], 0u32..100, 0u32..=100, any::<bool>()).prop_map(|(s, d, t, clk)| SymbolSync {
            sps: s as f32 / 10.0,
            maxdev: d as f32 / 100.0,
            t0: t as f32 / 100.0,
            t1: 1.0 - t as f32 / 100.0,
            clk,
        }),
        (prop_oneof![11u32..600, 11u32..30], any::<bool>()).prop_map(|(s, clk)| ZeroCrossing { sps: s as f32 / 10.0, clk }),
        (0u16..6, 2u16..40, any::<bool>(), any::<bool>()).prop_map(|(min, max, checksum, fix)| Hdlc { min, max, checksum, fix }),
        Just(Il2p),
        (1u16..300, 0u8..20).prop_map(|(max, tail)| StreamToPduU8 { max, tail }),
        (1u16..300, 0u8..20).prop_map(|(max, tail)| StreamToPduF32 { max, tail }),
        Just(VecToStreamU8),
        (1u8..4).prop_map(|n| ToTextU8 { n }),
        (1u8..4).prop_map(|n| ToTextF32 { n }),
        (0u8..7, any::<bool>()).prop_map(|(size, threaded)| FftStream { size, threaded }),
    ]
    .boxed()
}

#[derive(Clone, Copy, Debug, PartialEq, Eq)]
pub enum TagRule {
    /// block does not claim to carry tags
    NotClaimed,
    /// same index on every output, from the first input only
    Same,
    Shift(usize),
    /// index - skip, tags below skip dropped
    SkipBy(usize),
    Div(usize),
    /// index + d_eff below `at`; from `at` on index + d_new, and when the delay was lowered
    /// the first d_eff - d_new samples from `at` are dropped with their tags
    Retune { d_eff: usize, at: usize, d_new: usize },
}

/// Key used for the harness's own propagation-tracking tags.
pub const HKEY: &str = "h";

impl BlockSpec {
    pub fn name(&self) -> &'static str {
        use BlockSpec::*;
        match self {
            AddConstF32 { .. } | AddConstC32 { .. } | AddConstU32 { .. } => "AddConst",
            MulConstF32 { .. } | MulConstC32 { .. } => "MultiplyConst",
            XorConstU8 { .. } => "XorConst",
            XorU8 => "Xor",
            AddF32 => "Add",
            FloatToComplex => "FloatToComplex",
            BinarySlicer => "BinarySlicer",
            ComplexToMag2 => "ComplexToMag2",
            Nrzi => "NrziDecode",
            Descrambler { .. } => "Descrambler",
            Cac { .. } => "CorrelateAccessCode",
            CacTag { .. } => "CorrelateAccessCodeTag",
            QuadDemod { .. } => "QuadratureDemod",
            FastFm => "FastFM",
            IirF32 { .. } | IirC32 { .. } => "SinglePoleIirFilter",
            MapAddConstF32 { .. } => "Map",
            BurstTaggerU32 { .. } => "BurstTagger",
            TeeU8 | TeeF32 => "Tee",
            SkipU8 { .. } | SkipF32 { .. } => "Skip",
            DelayU8 { .. } | DelayF32 { .. } => "Delay",
            DelayRetuneU8 { .. } => "Delay+set_delay",
            ResampU8 { .. } | ResampF32 { .. } => "RationalResampler",
            FirF32 { .. } | FirC32 { .. } => "FirFilter",
            FftFilter { .. } => "FftFilter",
            FftFilterFloat { .. } => "FftFilterFloat",
            Hilbert { .. } => "Hilbert",
            AuEncode => "AuEncode",
            AuDecode => "AuDecode",
            RtlSdrDecode => "RtlSdrDecode",
            SymbolSync { .. } => "SymbolSync",
            ZeroCrossing { .. } => "ZeroCrossing",
            Hdlc { .. } => "HdlcDeframer",
            Il2p => "Il2pDeframer",
            StreamToPduU8 { .. } | StreamToPduF32 { .. } => "StreamToPdu",
            VecToStreamU8 => "VecToStream",
            ToTextU8 { .. } | ToTextF32 { .. } => "ToText",
            FftStream { .. } => "FftStream",
            VectorSourceU8 { .. } => "VectorSource",
            ConstantSourceF32 { .. } => "ConstantSource",
            SignalSourceF32 => "SignalSourceFloat",
            SignalSourceC32 => "SignalSourceComplex",
            NullSinkU8 => "NullSink",
            VectorSinkU8 { .. } => "VectorSink",
            FileSourceU8 { .. } | FileSourceF32 { .. } | FileSourceS24 { .. } => "FileSource",
            SigMFSourceF32 { .. } => "SigMFSource",
            Derived { kind, .. } => ["S11", "S12", "S13", "S21", "S22", "S23", "T11", "T21", "SDefInto", "N12"][(*kind % DERIVED_KINDS) as usize],
        }
    }

    /// Sources that never end: the driver stops after a fixed number of calls.
    pub fn is_infinite_source(&self) -> bool {
        use BlockSpec::*;
        matches!(
            self,
            ConstantSourceF32 { .. } | SignalSourceF32 | SignalSourceC32 | VectorSourceU8 { repeat: 255, .. }
                | FileSourceU8 { repeat: 255, .. } | FileSourceF32 { repeat: 255, .. } | FileSourceS24 { repeat: 255, .. } | SigMFSourceF32 { repeat: 255, .. }
        )
    }

    /// A source that emits a finite amount and must then report EOF.
    pub fn is_finite_source(&self) -> bool {
        use BlockSpec::*;
        matches!(self, VectorSourceU8 { .. } | FileSourceU8 { .. } | FileSourceF32 { .. } | FileSourceS24 { .. } | SigMFSourceF32 { .. }) && !self.is_infinite_source()
    }

    /// Number of contiguous samples (per port, max) the block needs in one window.
    pub fn unit(&self) -> usize {
        use BlockSpec::*;
        match self {
            FirF32 { taps, deci } | FirC32 { taps, deci } => taps.n.max(1) as usize + *deci as usize,
            FftFilter { taps } | FftFilterFloat { taps } => {
                let mut n = 1;
                while n < taps.n.max(1) as usize {
                    n <<= 1;
                }
                2 * n
            }
            Hilbert { half, .. } => 2 * *half as usize + 1,
            FftStream { size, .. } => 1 << *size,
            ToTextU8 { .. } | ToTextF32 { .. } => 256,
            VecToStreamU8 => 64,
            AuEncode | AuDecode => 32,
            _ => 2,
        }
    }

    /// Input tag script understood by the block itself (not the propagation tags).
    pub fn wants_script_tags(&self) -> Option<&'static str> {
        use BlockSpec::*;
        match self {
            StreamToPduU8 { .. } | StreamToPduF32 { .. } => Some("burst"),
            Il2p => Some("sync"),
            _ => None,
        }
    }

    pub fn tag_rule(&self) -> TagRule {
        use BlockSpec::*;
        match self {
            AddConstF32 { .. } | AddConstC32 { .. } | AddConstU32 { .. } | MulConstF32 { .. } | MulConstC32 { .. }
            | XorConstU8 { .. } | XorU8 | AddF32 | FloatToComplex | BinarySlicer | ComplexToMag2 | Nrzi
            | Descrambler { .. } | Cac { .. } | CacTag { .. } | QuadDemod { .. } | FastFm | IirF32 { .. }
            | IirC32 { .. } | MapAddConstF32 { .. } | BurstTaggerU32 { .. } | TeeU8 | TeeF32 => TagRule::Same,
            SkipU8 { skip } | SkipF32 { skip } => TagRule::SkipBy(*skip as usize),
            DelayU8 { delay } | DelayF32 { delay } => TagRule::Shift(*delay as usize),
            DelayRetuneU8 { d0, early, mid, .. } => {
                let d_eff = early.last().copied().unwrap_or(*d0) as usize;
                match mid {
                    None => TagRule::Shift(d_eff),
                    Some((at, d)) => TagRule::Retune { d_eff, at: *at as usize, d_new: *d as usize },
                }
            }
            FirF32 { deci, .. } | FirC32 { deci, .. } => TagRule::Div(*deci as usize),
            FftFilter { .. } | FftFilterFloat { .. } | Hilbert { .. } => TagRule::Same,
            Derived { kind, .. } if *kind != 9 => TagRule::Same,
            _ => TagRule::NotClaimed,
        }
    }

    /// Expand the case's generators into typed input data (spec-aware domains).
    pub fn make_inputs(&self, g: &[Gen; 3]) -> Vec<InputData> {
        use BlockSpec::*;
        use InputData as D;
        match self {
            AddConstF32 { .. } | MulConstF32 { .. } | MapAddConstF32 { .. } | BinarySlicer | TeeF32
            | SkipF32 { .. } | DelayF32 { .. } | ResampF32 { .. } | IirF32 { .. } => {
                vec![D::F32(gen_f32(&g[0], FDom::Any))]
            }
            SymbolSync { .. } | ZeroCrossing { .. } => vec![D::F32(gen_f32(&g[0], FDom::Any))],
            FirF32 { .. } | FftFilterFloat { .. } | Hilbert { .. } => vec![D::F32(gen_f32(&g[0], FDom::Finite))],
            AuEncode => vec![D::F32(gen_f32(&g[0], FDom::Any))],
            AddConstC32 { .. } | MulConstC32 { .. } | ComplexToMag2 | QuadDemod { .. } | FastFm | IirC32 { .. } => {
                vec![D::C32(gen_c32(&g[0], FDom::Any))]
            }
            FirC32 { .. } | FftFilter { .. } | FftStream { .. } => vec![D::C32(gen_c32(&g[0], FDom::Finite))],
            AddConstU32 { .. } => vec![D::U32(gen_u32_small(&g[0]))],
            XorConstU8 { .. } | TeeU8 | SkipU8 { .. } | DelayU8 { .. } | DelayRetuneU8 { .. } | ResampU8 { .. } | RtlSdrDecode | StreamToPduU8 { .. } => {
                vec![D::U8(gen_u8(&g[0], BDom::Bytes))]
            }
            StreamToPduF32 { .. } => vec![D::F32(gen_f32(&g[0], FDom::Any))],
            // the correlators compare positions, whatever the byte values: in half of their
            // cases every seventh sample is a byte other than 0 and 1
            Cac { .. } | CacTag { .. } => {
                let mut v = gen_u8(&g[0], BDom::Bits);
                if g[0].seed % 2 == 0 {
                    for (i, x) in v.iter_mut().enumerate() {
                        if i % 7 == 3 {
                            *x |= 2 + ((i / 7) % 3) as u8 * 2;
                        }
                    }
                }
                vec![D::U8(v)]
            }
            Nrzi | Descrambler { .. } | Il2p => vec![D::U8(gen_u8(&g[0], BDom::Bits))],
            Hdlc { .. } => {
                // half of the time structured (framed payloads + noise), else raw bit patterns
                if g[0].pat & 1 == 0 {
                    vec![D::U8(gen_u8(&g[0], BDom::Bits))]
                } else {
                    let mut r = XRng::new(g[0].seed as u64);
                    let mut bits = Vec::new();
                    while bits.len() < g[0].len as usize {
                        let l = r.below(24) as usize;
                        let payload: Vec<u8> = (0..l).map(|_| if r.below(3) == 0 { 0xff } else { r.next() as u8 }).collect();
                        bits.extend(rm::hdlc_frame_bits(&payload, 1 + r.below(3) as usize, 1));
                        for _ in 0..r.below(9) {
                            bits.push((r.next() & 1) as u8);
                        }
                    }
                    bits.truncate(g[0].len as usize);
                    vec![D::U8(bits)]
                }
            }
            XorU8 => vec![D::U8(gen_u8(&g[0], BDom::Bytes)), D::U8(gen_u8(&g[1], BDom::Bytes))],
            AddF32 | FloatToComplex => vec![D::F32(gen_f32(&g[0], FDom::Any)), D::F32(gen_f32(&g[1], FDom::Any))],
            // the trigger stream takes any float: NaN is not above any threshold, +0.0 is not above -0.0
            BurstTaggerU32 { .. } => vec![D::U32(gen_u32_small(&g[0])), D::F32(gen_f32(&g[1], if g[1].seed % 2 == 0 { FDom::Any } else { FDom::Unit }))],
            AuDecode => {
                // a well-formed .au stream: the encoder's 28-byte header, then PCM16 data
                let mut v = rm::au_header(44100);
                v.extend(gen_u8(&g[0], BDom::Bytes));
                vec![D::U8(v)]
            }
            VecToStreamU8 => vec![D::PU8(gen_pkts_u8(&g[0], 300, 30))],
            ToTextU8 { n } => (0..*n as usize).map(|i| D::U8(gen_u8(&Gen { len: g[i].len.min(600), ..g[i] }, BDom::Bytes))).collect(),
            ToTextF32 { n } => (0..*n as usize).map(|i| D::F32(gen_f32(&Gen { len: g[i].len.min(300), ..g[i] }, FDom::Any))).collect(),
            VectorSourceU8 { .. } | ConstantSourceF32 { .. } | SignalSourceF32 | SignalSourceC32 => vec![],
            FileSourceU8 { .. } | FileSourceF32 { .. } | FileSourceS24 { .. } | SigMFSourceF32 { .. } => vec![],
            NullSinkU8 | VectorSinkU8 { .. } => vec![D::U8(gen_u8(&g[0], BDom::Bytes))],
            Derived { kind, .. } => (0..derived_shape(*kind).0).map(|i| D::U32(gen_u32_small(&g[i]))).collect(),
        }
    }

    /// Script tags (for blocks that react to tags), absolute positions on port 0.
    pub fn script_tags(&self, g: &[Gen; 3], len: usize) -> Vec<ITag> {
        let Some(key) = self.wants_script_tags() else {
            return Vec::new();
        };
        let mut r = XRng::new(g[2].seed as u64 ^ 0x7a6);
        let mut v = Vec::new();
        if len == 0 {
            return v;
        }
        let mut pos = 0usize;
        let mut on = false;
        loop {
            pos += 1 + r.below(1 + (len as u64 / 6).max(4)) as usize;
            if pos >= len {
                break;
            }
            match key {
                "burst" => {
                    on = !on;
                    // mostly well-formed start/end alternation, sometimes a repeated edge
                    let val = if r.below(8) == 0 { !on } else { on };
                    v.push((pos, key.to_string(), TagValue::Bool(val)));
                }
                _ => v.push((pos, key.to_string(), TagValue::Bool(true))),
            }
        }
        v
    }

    /// Build the block with harness-owned far ends.  `in_size`/`out_size`: stream sizes
    /// in bytes (None = library default of 4 MB).
    pub fn build(
        &self,
        inputs: Vec<InputData>,
        mut tags: Vec<Vec<ITag>>,
        in_size: Option<usize>,
        out_size: Option<usize>,
    ) -> Built {
        use BlockSpec::*;
        use rustradio::verif::set_stream_size as sss;
        tags.resize(inputs.len().max(1), Vec::new());
        let mut it = inputs.into_iter();
        let mut tg = tags.into_iter();
        macro_rules! sin {
            ($variant:ident) => {{
                sss(in_size);
                let d = match it.next() {
                    Some(InputData::$variant(v)) => v,
                    other => panic!("input type mismatch for {}: {:?}", self.name(), other.map(|x| x.len())),
                };
                let (p, r) = SIn::new(d, tg.next().unwrap_or_default());
                sss(out_size);
                (Box::new(p) as Box<dyn InPort>, r)
            }};
        }
        macro_rules! one {
            ($variant:ident, |$r:ident| $ctor:expr) => {{
                let (p, $r) = sin!($variant);
                let (b, o) = $ctor;
                Built {
                    scratch: None, sink_probe: None,
                    name: self.name().to_string(),
                    block: Box::new(b),
                    ins: vec![p],
                    outs: vec![Box::new(SOut::new(o))],
                }
            }};
        }
        macro_rules! two {
            ($va:ident, $vb:ident, |$a:ident, $b:ident| $ctor:expr) => {{
                let (pa, $a) = sin!($va);
                let (pb, $b) = sin!($vb);
                let (blk, o) = $ctor;
                Built {
                    scratch: None, sink_probe: None,
                    name: self.name().to_string(),
                    block: Box::new(blk),
                    ins: vec![pa, pb],
                    outs: vec![Box::new(SOut::new(o))],
                }
            }};
        }
        let built = match self.clone() {
            AddConstF32 { val } => one!(F32, |r| rustradio::blocks::AddConst::new(r, val)),
            AddConstC32 { re, im } => one!(C32, |r| rustradio::blocks::AddConst::new(r, Complex::new(re, im))),
            AddConstU32 { val } => one!(U32, |r| rustradio::blocks::AddConst::new(r, val)),
            MulConstF32 { val } => one!(F32, |r| MultiplyConst::new(r, val)),
            MulConstC32 { re, im } => one!(C32, |r| MultiplyConst::new(r, Complex::new(re, im))),
            XorConstU8 { val } => one!(U8, |r| XorConst::new(r, val)),
            XorU8 => two!(U8, U8, |a, b| Xor::new(a, b)),
            AddF32 => two!(F32, F32, |a, b| Add::new(a, b)),
            FloatToComplex => two!(F32, F32, |a, b| rustradio::blocks::FloatToComplex::new(a, b)),
            BinarySlicer => one!(F32, |r| rustradio::blocks::BinarySlicer::new(r)),
            ComplexToMag2 => one!(C32, |r| rustradio::blocks::ComplexToMag2::new(r)),
            Nrzi => one!(U8, |r| NrziDecode::new(r)),
            Descrambler { mask, seed, len } => one!(U8, |r| rustradio::blocks::Descrambler::new(r, mask, seed, len)),
            Cac { code, allowed } => one!(U8, |r| CorrelateAccessCode::new(r, code, allowed as usize)),
            CacTag { code, allowed } => one!(U8, |r| CorrelateAccessCodeTag::new(r, code, "cac", allowed as usize)),
            QuadDemod { gain } => one!(C32, |r| QuadratureDemod::new(r, gain)),
            FastFm => one!(C32, |r| FastFM::new(r)),
            IirF32 { alpha } => one!(F32, |r| SinglePoleIirFilter::new(r, alpha).expect("alpha in range")),
            IirC32 { alpha } => one!(C32, |r| SinglePoleIirFilter::new(r, alpha).expect("alpha in range")),
            MapAddConstF32 { val } => one!(F32, |r| add_const(r, val)),
            BurstTaggerU32 { threshold } => two!(U32, F32, |a, b| BurstTagger::new(a, b, threshold, "burst")),
            TeeU8 => {
                let (p, r) = sin!(U8);
                let (b, o1, o2) = Tee::new(r);
                Built { scratch: None, sink_probe: None, name: "Tee".into(), block: Box::new(b), ins: vec![p], outs: vec![Box::new(SOut::new(o1)), Box::new(SOut::new(o2))] }
            }
            TeeF32 => {
                let (p, r) = sin!(F32);
                let (b, o1, o2) = Tee::new(r);
                Built { scratch: None, sink_probe: None, name: "Tee".into(), block: Box::new(b), ins: vec![p], outs: vec![Box::new(SOut::new(o1)), Box::new(SOut::new(o2))] }
            }
            SkipU8 { skip } => one!(U8, |r| Skip::new(r, skip as usize)),
            SkipF32 { skip } => one!(F32, |r| Skip::new(r, skip as usize)),
            DelayU8 { delay } => one!(U8, |r| Delay::new(r, delay as usize)),
            DelayRetuneU8 { d0, early, mid, mid_pre } => one!(U8, |r| crate::derived::DelayRetune::new(
                r,
                d0 as usize,
                &early.iter().map(|x| *x as usize).collect::<Vec<_>>(),
                mid.map(|(a, d)| (a as usize, d as usize)),
                &mid_pre.iter().map(|x| *x as usize).collect::<Vec<_>>()
            )),
            DelayF32 { delay } => one!(F32, |r| Delay::new(r, delay as usize)),
            ResampU8 { interp, deci } => one!(U8, |r| RationalResampler::new(r, interp as usize, deci as usize).expect("resampler")),
            ResampF32 { interp, deci } => one!(F32, |r| RationalResampler::new(r, interp as usize, deci as usize).expect("resampler")),
            FirF32 { taps, deci } => one!(F32, |r| FirFilterBuilder::new(&taps.taps()).deci(deci as usize).build(r)),
            FirC32 { taps, deci } => one!(C32, |r| FirFilterBuilder::new(&taps.ctaps()).deci(deci as usize).build(r)),
            FftFilter { taps } => one!(C32, |r| rustradio::blocks::FftFilter::new(r, &taps.ctaps())),
            FftFilterFloat { taps } => one!(F32, |r| rustradio::blocks::FftFilterFloat::new(r, &taps.taps())),
            Hilbert { half, window } => one!(F32, |r| rustradio::blocks::Hilbert::new(r, 2 * half as usize + 1, &window_of(window))),
            AuEncode => one!(F32, |r| rustradio::blocks::AuEncode::new(r, rustradio::au::Encoding::Pcm16, 44100, 1)),
            AuDecode => one!(U8, |r| rustradio::blocks::AuDecode::new(r, 44100)),
            RtlSdrDecode => one!(U8, |r| rustradio::blocks::RtlSdrDecode::new(r)),
            SymbolSync { sps, maxdev, t0, t1, clk } => {
                let (p, r) = sin!(F32);
                let (mut b, o) = rustradio::blocks::SymbolSync::new(
                    r,
                    sps,
                    maxdev,
                    Box::new(rustradio::symbol_sync::TedZeroCrossing::new()),
                    Box::new(rustradio::iir_filter::IirFilter::new(&[t0, t1])),
                );
                let mut outs: Vec<Box<dyn OutPort>> = vec![Box::new(SOut::new(o))];
                if clk {
                    if let Some(c) = b.out_clock() {
                        outs.push(Box::new(SOut::new(c)));
                    }
                }
                Built { scratch: None, sink_probe: None, name: self.name().to_string(), block: Box::new(b), ins: vec![p], outs }
            }
            ZeroCrossing { sps, clk } => {
                let (p, r) = sin!(F32);
                let (mut b, o) = rustradio::blocks::ZeroCrossing::new(r, sps, 0.1);
                let mut outs: Vec<Box<dyn OutPort>> = vec![Box::new(SOut::new(o))];
                if clk {
                    outs.push(Box::new(SOut::new(b.out_clock())));
                }
                Built { scratch: None, sink_probe: None, name: self.name().to_string(), block: Box::new(b), ins: vec![p], outs }
            }
            Hdlc { min, max, checksum, fix } => {
                let (p, r) = sin!(U8);
                let (mut b, o) = HdlcDeframer::new(r, min as usize, max as usize);
                b.set_checksum(checksum);
                b.set_fix_bits(fix);
                Built { scratch: None, sink_probe: None, name: "HdlcDeframer".into(), block: Box::new(b), ins: vec![p], outs: vec![Box::new(POut::new(o))] }
            }
            Il2p => {
                let (p, r) = sin!(U8);
                let (b, o) = Il2pDeframer::new(r);
                Built { scratch: None, sink_probe: None, name: "Il2pDeframer".into(), block: Box::new(b), ins: vec![p], outs: vec![Box::new(POut::new(o))] }
            }
            StreamToPduU8 { max, tail } => {
                let (p, r) = sin!(U8);
                let (b, o) = StreamToPdu::new(r, "burst", max as usize, tail as usize);
                Built { scratch: None, sink_probe: None, name: "StreamToPdu".into(), block: Box::new(b), ins: vec![p], outs: vec![Box::new(POut::new(o))] }
            }
            StreamToPduF32 { max, tail } => {
                let (p, r) = sin!(F32);
                let (b, o) = StreamToPdu::new(r, "burst", max as usize, tail as usize);
                Built { scratch: None, sink_probe: None, name: "StreamToPdu".into(), block: Box::new(b), ins: vec![p], outs: vec![Box::new(POut::new(o))] }
            }
            VecToStreamU8 => {
                let d = match it.next() {
                    Some(InputData::PU8(v)) => v,
                    _ => panic!("input type mismatch"),
                };
                let (p, r) = PIn::new(d);
                sss(out_size);
                let (b, o) = VecToStream::new(r);
                Built { scratch: None, sink_probe: None, name: "VecToStream".into(), block: Box::new(b), ins: vec![Box::new(p)], outs: vec![Box::new(SOut::new(o))] }
            }
            ToTextU8 { n } => {
                let mut ins = Vec::new();
                let mut rs: Vec<ReadStream<u8>> = Vec::new();
                for _ in 0..n {
                    let (p, r) = sin!(U8);
                    ins.push(p);
                    rs.push(r);
                }
                let (b, o) = ToText::new(rs);
                Built { scratch: None, sink_probe: None, name: "ToText".into(), block: Box::new(b), ins, outs: vec![Box::new(SOut::new(o))] }
            }
            ToTextF32 { n } => {
                let mut ins = Vec::new();
                let mut rs: Vec<ReadStream<f32>> = Vec::new();
                for _ in 0..n {
                    let (p, r) = sin!(F32);
                    ins.push(p);
                    rs.push(r);
                }
                let (b, o) = ToText::new(rs);
                Built { scratch: None, sink_probe: None, name: "ToText".into(), block: Box::new(b), ins, outs: vec![Box::new(SOut::new(o))] }
            }
            FftStream { size, threaded } => one!(C32, |r| {
                let (mut b, o) = rustradio::blocks::FftStream::new(r, 1usize << size);
                if threaded {
                    b.threaded(true);
                }
                (b, o)
            }),
            VectorSourceU8 { len, repeat } => {
                sss(out_size);
                let data = vector_source_data(len);
                let rep = if repeat == 255 { rustradio::Repeat::infinite() } else { rustradio::Repeat::finite(repeat as u64) };
                let (b, o) = VectorSourceBuilder::new(data).repeat(rep).build();
                Built { scratch: None, sink_probe: None, name: "VectorSource".into(), block: Box::new(b), ins: vec![], outs: vec![Box::new(SOut::new(o))] }
            }
            ConstantSourceF32 { val } => {
                sss(out_size);
                let (b, o) = ConstantSource::new(val);
                Built { scratch: None, sink_probe: None, name: "ConstantSource".into(), block: Box::new(b), ins: vec![], outs: vec![Box::new(SOut::new(o))] }
            }
            SignalSourceF32 => {
                sss(out_size);
                let (b, o) = SignalSourceFloat::new(48000.0, 1200.0, 0.5);
                Built { scratch: None, sink_probe: None, name: "SignalSourceFloat".into(), block: Box::new(b), ins: vec![], outs: vec![Box::new(SOut::new(o))] }
            }
            SignalSourceC32 => {
                sss(out_size);
                let (b, o) = SignalSourceComplex::new(48000.0, 1200.0, 0.5);
                Built { scratch: None, sink_probe: None, name: "SignalSourceComplex".into(), block: Box::new(b), ins: vec![], outs: vec![Box::new(SOut::new(o))] }
            }
            NullSinkU8 => {
                let (p, r) = sin!(U8);
                let b = NullSink::new(r);
                Built { scratch: None, sink_probe: None, name: "NullSink".into(), block: Box::new(b), ins: vec![p], outs: vec![] }
            }
            Derived { kind, k } => {
                use crate::derived::*;
                macro_rules! outs {
                    ($($o:ident),*) => { vec![$(Box::new(SOut::new($o)) as Box<dyn OutPort>),*] };
                }
                let nm = self.name().to_string();
                match kind % DERIVED_KINDS {
                    0 => one!(U32, |r| S11::new(r, k)),
                    1 => { let (p, r) = sin!(U32); let (b, x, y) = S12::new(r, k);
                           Built { scratch: None, sink_probe: None, name: nm, block: Box::new(b), ins: vec![p], outs: outs!(x, y) } }
                    2 => { let (p, r) = sin!(U32); let (b, x, y, z) = S13::new(r, k);
                           Built { scratch: None, sink_probe: None, name: nm, block: Box::new(b), ins: vec![p], outs: outs!(x, y, z) } }
                    3 => two!(U32, U32, |a, b| S21::new(a, b, k)),
                    4 => { let (pa, a) = sin!(U32); let (pb, b) = sin!(U32); let (blk, x, y) = S22::new(a, b, k);
                           Built { scratch: None, sink_probe: None, name: nm, block: Box::new(blk), ins: vec![pa, pb], outs: outs!(x, y) } }
                    5 => { let (pa, a) = sin!(U32); let (pb, b) = sin!(U32); let (blk, x, y, z) = S23::new(a, b, k);
                           Built { scratch: None, sink_probe: None, name: nm, block: Box::new(blk), ins: vec![pa, pb], outs: outs!(x, y, z) } }
                    6 => one!(U32, |r| T11::new(r, k)),
                    7 => two!(U32, U32, |a, b| T21::new(a, b, k)),
                    8 => one!(U32, |r| SDefInto::new(r, k, k.wrapping_mul(3) ^ 0x55)),
                    _ => { let (p, r) = sin!(U32); let (b, x, pk) = N12::new(r, k);
                           Built { scratch: None, sink_probe: None, name: nm, block: Box::new(b), ins: vec![p], outs: vec![Box::new(SOut::new(x)), Box::new(POut::new(pk))] } }
                }
            }
            FileSourceU8 { len, repeat } => {
                let sc = Scratch::new();
                let path = sc.path("data.u8");
                std::fs::write(&path, vector_source_data(len)).expect("write scratch");
                sss(out_size);
                let (mut b, o) = FileSource::<u8>::new(&path).expect("FileSource::new");
                b.repeat(repeat_of(repeat));
                // the source reads the file it opened: in a third of the cases the name is
                // unlinked right after the open (the open-then-unlink idiom), and in half of
                // those another file takes its place
                match len % 6 {
                    1 => {
                        let _ = std::fs::remove_file(&path);
                    }
                    4 => {
                        let _ = std::fs::remove_file(&path);
                        let _ = std::fs::write(&path, b"an unrelated file that took the place of the one that was opened");
                    }
                    _ => {}
                }
                Built { scratch: Some(sc), sink_probe: None, name: "FileSource".into(), block: Box::new(b), ins: vec![], outs: vec![Box::new(SOut::new(o))] }
            }
            FileSourceS24 { len, repeat } => {
                let sc = Scratch::new();
                let path = sc.path("data.s24");
                let bytes: Vec<u8> = s24_source_data(len).iter().flat_map(|x| vec![*x as u8, (*x >> 8) as u8, (*x >> 16) as u8]).collect();
                std::fs::write(&path, bytes).expect("write scratch");
                sss(out_size);
                let (mut b, o) = FileSource::<crate::drip::Pcm24>::new(&path).expect("FileSource::new");
                b.repeat(repeat_of(repeat));
                Built { scratch: Some(sc), sink_probe: None, name: "FileSource".into(), block: Box::new(b), ins: vec![], outs: vec![Box::new(SOut::new(o))] }
            }
            FileSourceF32 { len, repeat, dangle } => {
                let sc = Scratch::new();
                let path = sc.path("data.f32");
                let mut bytes: Vec<u8> = f32_source_data(len).iter().flat_map(|x| x.to_le_bytes()).collect();
                if repeat <= 1 {
                    bytes.extend(std::iter::repeat(0xA7u8).take((dangle % 4) as usize));
                }
                std::fs::write(&path, bytes).expect("write scratch");
                sss(out_size);
                let (mut b, o) = FileSource::<f32>::new(&path).expect("FileSource::new");
                b.repeat(repeat_of(repeat));
                Built { scratch: Some(sc), sink_probe: None, name: "FileSource".into(), block: Box::new(b), ins: vec![], outs: vec![Box::new(SOut::new(o))] }
            }
            SigMFSourceF32 { len, repeat, archive, opts } => {
                let sc = Scratch::new();
                let bytes: Vec<u8> = f32_source_data(len).iter().flat_map(|x| x.to_le_bytes()).collect();
                let path = if archive {
                    let path = sc.path("rec.sigmf");
                    let f = std::fs::File::create(&path).expect("create archive");
                    let mut tb = tar::Builder::new(f);
                    let mut add = |name: &str, data: &[u8]| {
                        let mut h = tar::Header::new_gnu();
                        h.set_size(data.len() as u64);
                        h.set_mode(0o644);
                        h.set_cksum();
                        tb.append_data(&mut h, name, data).expect("tar append");
                    };
                    add("rec/rec.sigmf-meta", SIGMF_META_F32.as_bytes());
                    add("rec/rec.sigmf-data", &bytes);
                    tb.finish().expect("tar finish");
                    path
                } else {
                    let base = sc.path("rec.sigmf");
                    std::fs::write(sc.path("rec.sigmf-meta"), SIGMF_META_F32).expect("meta");
                    std::fs::write(sc.path("rec.sigmf-data"), &bytes).expect("data");
                    base
                };
                sss(out_size);
                let mut bld = SigMFSourceBuilder::<f32>::new(path).repeat(repeat_of(repeat));
                if opts & 1 != 0 {
                    bld = bld.ignore_type_error();
                }
                if opts & 2 != 0 {
                    bld = bld.sample_rate(48000.0);
                }
                let (b, o) = bld.build().expect("SigMFSource build");
                Built { scratch: Some(sc), sink_probe: None, name: "SigMFSource".into(), block: Box::new(b), ins: vec![], outs: vec![Box::new(SOut::new(o))] }
            }
            VectorSinkU8 { max } => {
                let (p, r) = sin!(U8);
                let b = VectorSink::new(r, max as usize);
                let hook = b.hook();
                let probe: Box<dyn Fn() -> Vec<u64>> = Box::new(move || hook.data().samples().iter().map(|x| *x as u64).collect());
                Built { scratch: None, sink_probe: Some(probe), name: "VectorSink".into(), block: Box::new(b), ins: vec![p], outs: vec![] }
            }
        };
        sss(None);
        built
    }
}

/// Data of the catalogue's VectorSource: a counter, so that position is visible in the value.
pub fn vector_source_data(len: u32) -> Vec<u8> {
    (0..len).map(|i| (i % 251) as u8).collect()
}

/// Bytes per sample on the block's widest sample port (for stream sizing).
pub fn widest_elem(spec: &BlockSpec) -> usize {
    use BlockSpec::*;
    match spec {
        AddConstC32 { .. } | MulConstC32 { .. } | ComplexToMag2 | QuadDemod { .. } | FastFm | IirC32 { .. } | FirC32 { .. }
        | FftFilter { .. } | FftStream { .. } | FloatToComplex | Hilbert { .. } | RtlSdrDecode | FftFilterFloat { .. } => 8,
        XorConstU8 { .. } | XorU8 | Nrzi | Descrambler { .. } | Cac { .. } | CacTag { .. } | TeeU8 | SkipU8 { .. } | DelayU8 { .. }
        | DelayRetuneU8 { .. } | ResampU8 { .. } | Hdlc { .. } | Il2p | StreamToPduU8 { .. } | VecToStreamU8 | ToTextU8 { .. }
        | VectorSourceU8 { .. } | NullSinkU8 | VectorSinkU8 { .. } | FileSourceU8 { .. } => 1,
        SignalSourceC32 => 8,
        _ => 4,
    }
}

/// Stream size in bytes for `pages` requested pages, raised so that the capacity is at
/// least twice the block's contiguous unit.
pub fn stream_bytes(spec: &BlockSpec, pages: u8) -> usize {
    let need = 2 * spec.unit() * widest_elem(spec);
    let p = (pages.max(1) as usize).max(need.div_ceil(4096));
    p * 4096
}
