//! C15 — input content can never crash a block, decoder or parser.
use proptest::prelude::*;
use serde::{Deserialize, Serialize};
use serde_json::json;

use crate::engine::{Ctx, Extra, Failure, Prop, Tier, hash_json};
use crate::fuzz_entry::*;

pub struct C15;

#[derive(Clone, Debug, Serialize, Deserialize, PartialEq)]
pub enum C15Case {
    /// raw bytes for a named target
    Bytes { target: u8, data: Vec<u8> },
    /// one burst (indices into fuzz_entry::FLOATS) for Wpcr (0) or Midpointer (1)
    Burst { block: u8, vals: Vec<u8> },
    /// AU header with mutated fields + tail
    AuHeader { offset: u32, encoding: u32, rate: u32, channels: u32, ann: u8, tail: Vec<u8> },
}

fn bytes_strategy(max: usize) -> impl Strategy<Value = Vec<u8>> {
    prop_oneof![
        2 => prop::collection::vec(any::<u8>(), 0..16),
        3 => prop::collection::vec(any::<u8>(), 0..max),
        // structured: long runs, so that length fields / flags / stuffing are hit
        2 => prop::collection::vec(prop_oneof![Just(0u8), Just(0xffu8), Just(0x7eu8), Just(0xe0u8), any::<u8>()], 0..max),
    ]
}

/// Seeds that reach past the parsers' first checks: valid containers to mutate.
pub fn seed_inputs(target: &str) -> Vec<Vec<u8>> {
    match target {
        "au_decode" => {
            let mut v = vec![au_stream(28, 3, 44100, 1, &[0, 0, 0, 0], &[1, 2, 3, 4, 5, 6, 7, 8, 9])];
            if let Ok(b) = std::fs::read("/repo/testdata/aprs.au") {
                v.push(b[..2000.min(b.len())].to_vec());
            }
            v
        }
        "sigmf_meta" => vec![
            crate::catalog::SIGMF_META_F32.as_bytes().to_vec(),
            br#"{"global":{"core:datatype":"cf32_le","core:version":"1.1.0","core:num_channels":1},"captures":[{"core:sample_start":0,"core:frequency":1e9}],"annotations":[{"core:sample_start":1,"core:sample_count":2}]}"#.to_vec(),
        ],
        "sigmf_archive" => {
            let mut out = Vec::new();
            // data members: whole samples, a truncated last sample (cf32 = 8 bytes), nothing
            for (order, dlen) in [(0usize, 64usize), (1, 64), (0, 13), (1, 67), (0, 5), (0, 0)] {
                let mut buf = Vec::new();
                {
                    let mut tb = tar::Builder::new(&mut buf);
                    let meta = br#"{"global":{"core:datatype":"cf32_le","core:version":"1.1.0"},"captures":[]}"#;
                    let data: Vec<u8> = (0..dlen).map(|i| (i * 37 + 11) as u8).collect();
                    let mut add = |name: &str, d: &[u8]| {
                        let mut h = tar::Header::new_gnu();
                        h.set_size(d.len() as u64);
                        h.set_mode(0o644);
                        h.set_cksum();
                        tb.append_data(&mut h, name, d).unwrap();
                    };
                    if order == 0 {
                        add("a/x.sigmf-meta", meta);
                        add("a/x.sigmf-data", &data);
                    } else {
                        add("a/x.sigmf-data", &data);
                        add("a/x.sigmf-meta", meta);
                    }
                    tb.finish().unwrap();
                }
                out.push(buf);
            }
            out
        }
        _ => vec![],
    }
}

impl Prop for C15 {
    type Case = C15Case;
    fn id(&self) -> &'static str {
        "C15"
    }
    fn strategy(&self, tier: Tier) -> BoxedStrategy<C15Case> {
        let max = tier.pick(600, 3000) as usize;
        let nt = TARGETS.len() as u8;
        // random bytes, or a mutation of a seed input (byte flips / truncation / splice)
        let raw = (0u8..nt, bytes_strategy(max)).prop_map(|(target, data)| C15Case::Bytes { target, data });
        let mutated = (0u8..nt, any::<u8>(), prop::collection::vec((any::<u16>(), any::<u8>()), 0..8), any::<u16>()).prop_map(|(target, which, flips, cut)| {
            let seeds = seed_inputs(TARGETS[target as usize]);
            if seeds.is_empty() {
                return C15Case::Bytes { target, data: flips.iter().map(|f| f.1).collect() };
            }
            let mut d = seeds[which as usize % seeds.len()].clone();
            for (pos, val) in flips {
                if !d.is_empty() {
                    let p = (pos as usize * d.len()) >> 16;
                    d[p] = val;
                }
            }
            if cut & 3 == 0 && !d.is_empty() {
                let p = (cut as usize * d.len()) >> 16;
                d.truncate(p);
            }
            C15Case::Bytes { target, data: d }
        });
        let burst = (0u8..2, prop::collection::vec(0u8..16, 0..40)).prop_map(|(block, vals)| C15Case::Burst { block, vals });
        let au = (
            prop_oneof![0u32..48, Just(1u32 << 31), Just(u32::MAX), any::<u32>()],
            prop_oneof![0u32..9, any::<u32>()],
            prop_oneof![Just(44100u32), any::<u32>()],
            prop_oneof![0u32..3, any::<u32>()],
            0u8..40,
            prop::collection::vec(any::<u8>(), 0..200),
        )
            .prop_map(|(offset, encoding, rate, channels, ann, tail)| C15Case::AuHeader { offset, encoding, rate, channels, ann, tail });
        // tar archives whose header fields lie (valid checksums): announced sizes that are far
        // larger or smaller than the member.  Sizes between 2^31 and 2^63 are left out on
        // purpose: code that allocates the announced size would take the checking process down
        // (allocation failure aborts) instead of producing a verdict.
        let sizes = prop_oneof![
            2 => (1u64 << 63)..=u64::MAX,
            1 => (0u32..31).prop_map(|k| 1u64 << k),
            1 => 0u64..100_000,
            1 => Just(u64::MAX),
            1 => Just(1u64 << 63),
        ];
        let arch = TARGETS.iter().position(|t| *t == "sigmf_archive").unwrap() as u8;
        let forged = (any::<u8>(), any::<u8>(), sizes, any::<bool>(), prop::collection::vec((any::<u16>(), any::<u8>()), 0..3)).prop_map(move |(which, hdr, size, octal, flips)| {
            let seeds = seed_inputs("sigmf_archive");
            let mut d = seeds[which as usize % seeds.len()].clone();
            let hs = crate::fuzz_entry::tar_headers(&d);
            if !hs.is_empty() {
                let off = hs[hdr as usize % hs.len()];
                // further flips inside this header (name, type flag, mode, ...)
                for (pos, val) in flips {
                    d[off + (pos as usize * 512 >> 16)] = val;
                }
                d[off + 257..off + 262].copy_from_slice(b"ustar");
                let f = &mut d[off + 124..off + 136];
                if octal && size < (1u64 << 33) {
                    f.copy_from_slice(format!("{:011o}\0", size).as_bytes());
                } else {
                    // GNU base-256: flag byte, then the number big-endian in 11 bytes
                    f.fill(0);
                    f[0] = 0x80;
                    f[4..12].copy_from_slice(&size.to_be_bytes());
                }
                crate::fuzz_entry::tar_fix_checksums(&mut d);
            }
            C15Case::Bytes { target: arch, data: d }
        });
        prop_oneof![10 => raw, 8 => mutated, 2 => burst, 2 => au, 1 => forged].boxed()
    }
    fn cases(&self, tier: Tier) -> u64 {
        tier.pick(60_000, 600_000)
    }
    fn fixed_cases(&self, tier: Tier) -> Vec<C15Case> {
        let mut v = Vec::new();
        // all bursts of length 0..=8 (quick: 0..=6) over {-1, 0, 1, +inf}
        let maxlen = tier.pick(6, 8) as usize;
        for block in 0..2u8 {
            for len in 0..=maxlen {
                let n = 4usize.pow(len as u32);
                for code in 0..n {
                    let mut c = code;
                    let vals: Vec<u8> = (0..len)
                        .map(|_| {
                            let d = (c % 4) as u8;
                            c /= 4;
                            d // indices 0..3 of FLOATS = -1, 0, 1, +inf
                        })
                        .collect();
                    v.push(C15Case::Burst { block, vals });
                }
            }
            // every constant / single-special burst up to length 12
            for val in 0..16u8 {
                for len in 0..=12 {
                    v.push(C15Case::Burst { block, vals: vec![val; len] });
                }
            }
        }
        // AU header mutations of selected fields
        let mut offsets: Vec<u32> = (0..=40).collect();
        offsets.extend([1u32 << 31, u32::MAX]);
        for offset in offsets {
            for encoding in 0..=8u32 {
                for rate in [44100u32, 8000] {
                    for channels in 0..=2u32 {
                        v.push(C15Case::AuHeader { offset, encoding, rate, channels, ann: 4, tail: vec![1, 2, 3, 4, 5, 6, 7] });
                    }
                }
            }
        }
        v
    }
    fn exhaustive_subdomains(&self) -> Vec<String> {
        vec![
            "all bursts of length 0..6 (thorough 0..8) over {-1, 0, 1, +inf} and all constant bursts of 16 special values up to length 12, for Wpcr and Midpointer".into(),
            "AU headers: data offset in {0..40, 2^31, 2^32-1} x encoding 0..8 x rate {44100, 8000} x channels 0..2".into(),
        ]
    }
    fn run(&self, case: &C15Case, ctx: &mut Ctx) {
        let findings = match case {
            C15Case::Bytes { target, data } => {
                let t = TARGETS[*target as usize % TARGETS.len()];
                ctx.class(format!("target={t}"));
                if data.len() > 12 {
                    ctx.nontrivial();
                }
                run_target(t, data)
            }
            C15Case::Burst { block, vals } => {
                let t = if *block % 2 == 0 { "wpcr" } else { "midpointer" };
                ctx.class(format!("burst-enumeration {t}"));
                ctx.nontrivial();
                let burst: Vec<f32> = vals.iter().map(|i| FLOATS[(*i & 15) as usize]).collect();
                let mut out = Vec::new();
                run_bursts(t, vec![burst], &mut out);
                out
            }
            C15Case::AuHeader { offset, encoding, rate, channels, ann, tail } => {
                ctx.class("au-header-mutation");
                ctx.nontrivial();
                let bytes = au_stream(*offset, *encoding, *rate, *channels, &vec![0u8; *ann as usize], tail);
                run_target("au_decode", &bytes)
            }
        };
        for (sig, msg) in findings {
            ctx.fail(sig, msg);
        }
    }
    fn rule(&self) -> String {
        "generated per target (au_decode, hdlc_bits, il2p_bits(+sync tags), sigmf_meta, sigmf_archive, stream_to_pdu(+tag scripts), vec_to_stream, wpcr, midpointer, float_blocks {SymbolSync, ZeroCrossing, QuadratureDemod, FirFilter, FastFM, BinarySlicer on NaN/inf/subnormal/huge values}, sample_parse): uniformly random bytes, structured bytes (runs of 0x00/0xff/0x7e), and mutations (byte overwrite, truncation) of valid seed inputs (the encoder's AU stream, testdata/aprs.au, valid SigMF metadata, valid tar archives in both member orders, with whole, truncated and empty data members; every archive is opened with repeat 1, 2 and 0, as it is and with the checksums of its tar headers recomputed; one case in 23 is an archive with a forged header - announced member size below 2^31 or at least 2^63, octal or GNU base-256, further field flips, valid checksum); enumerated degenerate bursts and AU header field mutations; thorough adds coverage-guided libFuzzer+ASan campaigns on the same entry functions (/verif/harness/fuzz). The bytes are decoded into (parameters, content, drip schedule), fresh blocks are built, driven to quiescence under a step bound. The targets run with the log level at `trace`, so that the arguments of the library's log statements are evaluated. Oracle inside the target: no unwind out of work()/constructor/parser (an Err is fine), no 6x idle 'Again', a finite source with a drained output reaches EOF instead of stalling, and a block whose input has ended and is drained becomes retirable (either would be a busy loop under the multithreaded runner), quiescence within the step bound; under libFuzzer additionally ASan silence. Non-trivial: input longer than 12 bytes (reaches past the first header/length checks) or an enumerated degenerate case; distinct = hash of the case.".into()
    }
    fn assumptions(&self) -> Vec<String> {
        vec![
            "bit-stream consumers receive {0,1} (their documented domain; Lfsr::next asserts it)".into(),
            "constructor parameter assertions (sps > 1, odd Hilbert length, alpha in [0,1]) are refusals of invalid configuration, not content crashes".into(),
        ]
    }
    fn extra(&self, tier: Tier, seed: u64, ev: &mut Extra) {
        if tier != Tier::Thorough {
            return;
        }
        // coverage-guided campaigns: cargo-fuzz + ASan on the same entry functions
        let runs = std::env::var("VERIF_FUZZ_RUNS").ok().and_then(|s| s.parse::<u64>().ok()).unwrap_or(30_000);
        let script = "/verif/harness/fuzz/run_campaign.sh";
        if !std::path::Path::new(script).exists() {
            ev.notes.insert("libfuzzer".into(), json!("fuzz crate missing"));
            return;
        }
        for t in TARGETS {
            let out = std::process::Command::new("sh").args([script, t, &runs.to_string(), &seed.to_string()]).output();
            match out {
                Err(e) => {
                    ev.notes.insert(format!("libfuzzer:{t}"), json!(format!("could not run: {e}")));
                    ev.inconclusive += 1;
                }
                Ok(o) => {
                    let text = String::from_utf8_lossy(&o.stdout).to_string() + &String::from_utf8_lossy(&o.stderr);
                    let execs = text.lines().rev().find_map(|l| l.strip_prefix("stat::number_of_executed_units:").map(|x| x.trim().parse::<u64>().unwrap_or(0))).unwrap_or(0);
                    ev.evaluations += execs;
                    let cj = json!({"libfuzzer_target": t, "runs": runs, "seed": seed});
                    ev.nontrivial_hashes.insert(hash_json(&cj));
                    ev.notes.insert(format!("libfuzzer:{t}"), json!({"executions": execs, "exit": o.status.code()}));
                    match o.status.code() {
                        Some(0) => {}
                        Some(2) | None => ev.inconclusive += 1, // build/infrastructure problem
                        Some(_) => {
                            let sig = text.lines().find_map(|l| l.strip_prefix("FINDING sig=").map(|x| x.split_whitespace().next().unwrap_or("").to_string()));
                            let artifact = text.lines().find_map(|l| l.split("Test unit written to ").nth(1).map(|x| x.trim().to_string()));
                            ev.failures.push((
                                Failure {
                                    sig: sig.unwrap_or_else(|| format!("C15/{t}/libfuzzer-crash")),
                                    msg: format!("libFuzzer target {t} crashed; artifact {artifact:?}; tail: {}", text.lines().rev().take(12).collect::<Vec<_>>().join(" | ")),
                                },
                                json!({"libfuzzer_target": t, "artifact": artifact}),
                            ));
                        }
                    }
                }
            }
        }
    }
}
