//! C10 — exactly-specified blocks compute their documented function on all inputs.
use proptest::prelude::*;
use rustradio::Complex;

use crate::catalog::*;
use crate::drip::*;
use crate::dripcase::*;
use crate::engine::{Ctx, Prop, Tier};
use crate::props::c08::describe_diff;
use crate::refmodel;

pub struct C10;

fn c10_specs() -> BoxedStrategy<BlockSpec> {
    use BlockSpec::*;
    let general = spec_strategy().prop_filter("has an exact reference", |s| {
        !matches!(
            s,
            QuadDemod { .. } | FastFm | IirF32 { .. } | IirC32 { .. } | FirF32 { .. } | FirC32 { .. } | FftFilter { .. }
                | FftFilterFloat { .. } | Hilbert { .. } | AuEncode | AuDecode | SymbolSync { .. } | ZeroCrossing { .. }
                | Hdlc { .. } | Il2p | StreamToPduU8 { .. } | StreamToPduF32 { .. }
        )
    });
    prop_oneof![
        12 => general,
        1 => (1u16..400).prop_map(|max| StreamToPduU8 { max, tail: 0 }),
        1 => (1u16..400).prop_map(|max| StreamToPduF32 { max, tail: 0 }),
        2 => source_sink_strategy().prop_filter("has reference", |s| !matches!(s, SignalSourceF32 | SignalSourceC32)),
    ]
    .boxed()
}

/// NaN payloads are not asserted through arithmetic: canonicalise every f32 half.
fn canon(v: &[u64]) -> Vec<u64> {
    v.iter()
        .map(|x| {
            let lo = *x as u32;
            let hi = (*x >> 32) as u32;
            let c = |b: u32| if f32::from_bits(b).is_nan() { 0x7fc0_0000u32 } else { b };
            ((c(hi) as u64) << 32) | c(lo) as u64
        })
        .collect()
}
fn canon_port(p: &PortData) -> PortData {
    match p {
        PortData::Samples(v) => PortData::Samples(canon(v)),
        PortData::Packets(v) => PortData::Packets(v.iter().map(|x| canon(x)).collect()),
    }
}

impl Prop for C10 {
    type Case = DripCase;
    fn id(&self) -> &'static str {
        "C10"
    }
    fn strategy(&self, tier: Tier) -> BoxedStrategy<DripCase> {
        dripcase_strategy(
            c10_specs(),
            tier.pick(14_000, 40_000) as u32,
            tier.pick(40, 120) as usize,
            prop_oneof![4 => Just(0u16), 1 => 16u16..200].boxed(),
        )
    }
    fn cases(&self, tier: Tier) -> u64 {
        tier.pick(16_000, 400_000)
    }
    fn run(&self, case: &DripCase, ctx: &mut Ctx) {
        let mut case = case.clone();
        if matches!(case.spec, BlockSpec::ToTextU8 { .. } | BlockSpec::ToTextF32 { .. }) {
            case.tag_every = 0; // the text format is specified without tags
        }
        let case = &case;
        let spec = &case.spec;
        let name = spec.name();
        ctx.class(format!("block={name}"));
        let prep = prepare(case);
        let Some(r) = refmodel::reference(spec, &prep.inputs, &prep.script) else {
            ctx.skip(format!("{name}: input outside the sub-domain the documentation determines"));
            return;
        };
        let mut built = build_drip(case, &prep);
        let mut opts = drive_opts(case);
        if spec.is_infinite_source() {
            opts.max_calls = 300;
        }
        let log = drive(&mut built, &case.schedule, &opts);
        if log.panic.is_some() || log.error.is_some() {
            ctx.skip("run ended by panic or error (reported by C08/C15)");
            return;
        }
        if log.step_budget_hit && !spec.is_infinite_source() {
            ctx.skip("step budget hit (inconclusive)");
            return;
        }
        for (i, want) in r.outs.iter().enumerate() {
            let got = &log.outs[i].data;
            let ok = if r.exact {
                let (g, w) = (canon_port(got), canon_port(want));
                if r.prefix_only {
                    match (&g, &w) {
                        (PortData::Samples(g), PortData::Samples(w)) => {
                            (w.is_empty() && g.is_empty()) || (!w.is_empty() && g.iter().enumerate().all(|(i, x)| *x == w[i % w.len()]))
                        }
                        _ => false,
                    }
                } else {
                    g == w
                }
            } else {
                fft_close(got, want, &prep.inputs)
            };
            if !ok {
                ctx.fail(
                    format!("C10/differs-from-specification/{name}"),
                    format!("{name} {spec:?} output {i}, observed vs specification: {}", describe_diff(got, want)),
                );
            }
        }
        if let Some(want) = &r.sink {
            let got = (built.sink_probe.as_ref().expect("sink probe"))();
            if &got != want {
                ctx.fail(
                    format!("C10/sink-content/{name}"),
                    format!("{name}: stored {} samples, specification says {}", got.len(), want.len()),
                );
            }
        }
        // sinks must have taken everything
        if built.outs.is_empty() && !built.ins.is_empty() {
            let fed: usize = log.fed.iter().sum();
            let lens: usize = log.in_lens.iter().sum();
            if fed != lens {
                ctx.fail(format!("C10/sink-stalled/{name}"), format!("{name}: accepted {fed} of {lens} samples"));
            }
        }
        let cap = stream_bytes(spec, case.in_pages) / widest_elem(spec).max(1);
        let total: usize = prep.inputs.iter().map(|d| d.len()).max().unwrap_or(0);
        if total > cap {
            ctx.class("longer-than-capacity");
            ctx.nontrivial();
        }
        if boundary_params(spec) {
            ctx.class("boundary-parameters");
            ctx.nontrivial();
        }
    }
    fn rule(&self) -> String {
        "generated: the exactly-specified catalogue blocks (sample-wise arithmetic/logic/conversion, slicer, NRZI, LFSR descrambler, both correlators, Delay, Skip, Tee, RationalResampler incl. non-coprime pairs, RTL-SDR decoder, VectorSource/ConstantSource, VecToStream, StreamToPdu (tail 0, well-formed tag pairs), BurstTagger, ToText, FftStream (plain and threaded(true)), NullSink, VectorSink) x parameters x inputs (all byte values, float specials incl. NaN/inf/subnormals, lengths 0..14k, thorough 40k) x chunked delivery by generated drip schedules (which include the one-shot shape). Oracle: differential against independent reference models (harness/src/refmodel.rs): exact values and exact counts, NaN payloads canonicalised; FftStream against a direct O(n^2) DFT within 16*eps*log2(n)*sum|x|. Non-trivial: input longer than one stream capacity, or parameters at a boundary (0, 1, interp==deci, empty code); distinct = hash of the case.".into()
    }
    fn assumptions(&self) -> Vec<String> {
        vec![
            "StreamToPdu is specified only for tail=0 and alternating start/end tags with bursts <= max_size and a sample after the last end tag (a PDU = samples from the start-tagged one up to, excluding, the end-tagged one); other inputs are covered by C08's chunking relation only".into(),
            "ToText is specified without tags".into(),
            "integer AddConst inputs stay below overflow".into(),
        ]
    }
}

fn boundary_params(spec: &BlockSpec) -> bool {
    use BlockSpec::*;
    match spec {
        SkipU8 { skip } | SkipF32 { skip } => *skip <= 1,
        DelayU8 { delay } | DelayF32 { delay } => *delay <= 1,
        ResampU8 { interp, deci } | ResampF32 { interp, deci } => interp == deci || *interp == 1 || *deci == 1,
        Cac { code, .. } | CacTag { code, .. } => code.len() <= 1,
        Descrambler { len, .. } => *len == 0 || *len == 63,
        FftStream { size, .. } => *size == 0,
        VectorSourceU8 { len, repeat } => *len <= 1 || *repeat == 0,
        VectorSinkU8 { max } => *max <= 1,
        _ => false,
    }
}

fn fft_close(got: &PortData, want: &PortData, inputs: &[InputData]) -> bool {
    let (PortData::Samples(g), PortData::Samples(w)) = (got, want) else {
        return false;
    };
    if g.len() != w.len() {
        return false;
    }
    let InputData::C32(x) = &inputs[0] else { return false };
    // per frame bound; use the global sum as a (looser but sound) bound scale per frame
    let dec = |b: u64| Complex::new(f32::from_bits((b >> 32) as u32), f32::from_bits(b as u32));
    let n = g.len();
    if n == 0 {
        return true;
    }
    let maxabs = x.iter().map(|c| c.re.abs().max(c.im.abs()) as f64).fold(0.0, f64::max);
    // frame size unknown here: bound with the largest possible frame (64)
    let tol = 16.0 * (f32::EPSILON as f64) * 6.0 * 64.0 * 2.0 * maxabs + 1e-30;
    g.iter().zip(w.iter()).all(|(a, b)| {
        let (a, b) = (dec(*a), dec(*b));
        ((a.re - b.re).abs() as f64) <= tol && ((a.im - b.im).abs() as f64) <= tol
    })
}
