//! C12 — blocks carry tags forward exactly once, at the corresponding output sample.
use proptest::prelude::*;
use rustradio::stream::TagValue;

use crate::catalog::*;
use crate::drip::*;
use crate::dripcase::*;
use crate::engine::{Ctx, Prop, Tier};
use crate::refmodel;

pub struct C12;

fn tag_spec_strategy() -> BoxedStrategy<BlockSpec> {
    // blocks that claim to carry or add tags
    spec_strategy()
        .prop_filter("carries or adds tags", |s| {
            s.tag_rule() != TagRule::NotClaimed || matches!(s, BlockSpec::VecToStreamU8)
        })
        .boxed()
}

type T3 = (usize, String, TagValue);

fn fmt_tags(v: &[T3]) -> String {
    v.iter().take(10).map(|(i, k, v)| format!("{i}:{k}={v:?}")).collect::<Vec<_>>().join(" ")
}

fn first_diff(got: &[T3], want: &[T3]) -> String {
    let i = got.iter().zip(want.iter()).position(|(a, b)| a != b).unwrap_or(got.len().min(want.len()));
    format!(
        "{} tags delivered, {} expected; first difference at #{i}: got [{}] expected [{}]",
        got.len(),
        want.len(),
        fmt_tags(&got[i.min(got.len())..]),
        fmt_tags(&want[i.min(want.len())..])
    )
}

impl Prop for C12 {
    type Case = DripCase;
    fn id(&self) -> &'static str {
        "C12"
    }
    fn strategy(&self, tier: Tier) -> BoxedStrategy<DripCase> {
        dripcase_strategy(
            tag_spec_strategy(),
            tier.pick(6_000, 20_000) as u32,
            tier.pick(60, 150) as usize,
            prop_oneof![2 => 1u16..4, 3 => 1u16..40, 1 => 1u16..400].boxed(),
        )
    }
    fn cases(&self, tier: Tier) -> u64 {
        tier.pick(20_000, 400_000)
    }
    fn run(&self, case: &DripCase, ctx: &mut Ctx) {
        let name = case.spec.name();
        ctx.class(format!("block={name}"));
        let prep = prepare(case);
        let mut drip = build_drip(case, &prep);
        let dl = drive(&mut drip, &case.schedule, &drive_opts(case));
        if dl.panic.is_some() || dl.error.is_some() {
            // panics / errors are C08's and C15's business
            ctx.skip("run ended by panic or error (reported by C08/C15)");
            return;
        }
        if dl.step_budget_hit {
            ctx.skip("step budget hit (inconclusive)");
            return;
        }
        let rule = case.spec.tag_rule();
        let in_tags: Vec<&T3> = prep.tags.first().map(|v| v.iter().filter(|t| t.1 == HKEY).collect()).unwrap_or_default();
        for (oi, out) in dl.outs.iter().enumerate() {
            let olen = out.data.len();
            // (1) propagation of the harness tags
            if rule != TagRule::NotClaimed {
                let mut want: Vec<T3> = Vec::new();
                for t in &in_tags {
                    let idx = match rule {
                        TagRule::Same => Some(t.0),
                        TagRule::Shift(d) => Some(t.0 + d),
                        TagRule::SkipBy(s) => t.0.checked_sub(s),
                        TagRule::Div(d) => Some(t.0 / d),
                        TagRule::Retune { d_eff, at, d_new } => {
                            if t.0 < at {
                                Some(t.0 + d_eff)
                            } else if d_new < d_eff && t.0 < at + (d_eff - d_new) {
                                None
                            } else {
                                Some(t.0 + d_new)
                            }
                        }
                        TagRule::NotClaimed => None,
                    };
                    if let Some(i) = idx {
                        if i < olen {
                            want.push((i, t.1.clone(), t.2.clone()));
                        }
                    }
                }
                // harness tags on the output: keys "h", "h1", "h2" (second inputs must not leak)
                let got: Vec<T3> = out.tags.iter().filter(|t| t.1.starts_with(HKEY)).cloned().collect();
                if got != want {
                    let dup = {
                        let mut g = got.clone();
                        g.sort_by(|a, b| (a.0, &a.1, format!("{:?}", a.2)).cmp(&(b.0, &b.1, format!("{:?}", b.2))));
                        let before = g.len();
                        g.dedup();
                        g.len() != before
                    };
                    let kind = if got.len() > want.len() && dup {
                        "duplicated"
                    } else if got.len() < want.len() {
                        "lost"
                    } else if got.len() > want.len() {
                        "extra"
                    } else {
                        "misplaced"
                    };
                    ctx.fail(
                        format!("C12/propagation/{name}/{kind}"),
                        format!("{name} output {oi} ({olen} samples, rule {rule:?}): {}", first_diff(&got, &want)),
                    );
                }
            }
        }
        // (2) tags the block itself must add
        if let Some(r) = refmodel::reference(&case.spec, &prep.inputs, &prep.script) {
            if let Some(added) = r.added_tags {
                for (oi, want) in added.iter().enumerate() {
                    let olen = dl.outs[oi].data.len();
                    let want: Vec<T3> = want.iter().filter(|t| t.0 < olen).cloned().collect();
                    let keys: std::collections::BTreeSet<&str> = ["cac", "burst", "VecToStream::start", "VecToStream::end"].into_iter().collect();
                    let got: Vec<T3> = dl.outs[oi].tags.iter().filter(|t| keys.contains(t.1.as_str())).cloned().collect();
                    if got != want {
                        ctx.fail(
                            format!("C12/added-tags/{name}"),
                            format!("{name} output {oi}: {}", first_diff(&got, &want)),
                        );
                    }
                    if !want.is_empty() {
                        ctx.class("block-added-tags-checked");
                    }
                }
            }
        }
        if dl.flags.call_with_output_full || dl.flags.call_with_output_short {
            ctx.class("tagged-run-with-output-short");
            if !in_tags.is_empty() || matches!(case.spec, BlockSpec::VecToStreamU8) {
                // with the output short the block processes only part of its read window,
                // so tags lay in the unconsumed part at least once
                ctx.nontrivial();
            }
        }
    }
    fn rule(&self) -> String {
        "generated: tag-carrying/adding catalogue blocks x drip schedules (as C08, incl. stingy drain phases) x tag plans: a harness tag (key h, value = absolute index, a second tag on every 5th tagged sample) on every k-th sample, k in 1..400, on every input port (keys differ per port). Oracle: the sequence of harness tags on each output equals the expected sequence (same index / +delay / -skip / index div decimation; first input only; only tags whose target sample exists), i.e. nothing lost, duplicated, extra or misplaced, order within a sample preserved; tags the block adds (burst edges, correlator hits, VecToStream start/end) equal the reference model's. Non-trivial: tagged input and at least one work() call with (nearly) full output, so that tags lay in the unconsumed part of a read window; distinct = hash of the case.".into()
    }
    fn assumptions(&self) -> Vec<String> {
        vec![
            "filters with group delay (FIR/FFT/Hilbert) are held to the index rule their code documents (same index, or index div decimation), not to a delay-compensated position".into(),
            "VectorSource marker tags are checked in C16".into(),
        ]
    }
}
