//! C17 — file sink: documented open modes, and consumed means on disk.
use std::io::{BufRead, BufReader};
use std::process::{Command, Stdio};

use proptest::prelude::*;
use rustradio::block::Block;
use rustradio::blocks::{FileSink, NoCopyFileSink};
use serde::{Deserialize, Serialize};

use crate::drip::Scratch;
use crate::engine::{Ctx, Prop, Tier, catch};
use crate::osfault::*;

pub struct C17;

#[derive(Clone, Copy, Debug, Serialize, Deserialize, PartialEq)]
pub enum Init {
    Absent,
    Empty,
    NonEmpty,
    Directory,
    /// the path lies below a regular file
    UnderFile,
    /// the parent directory does not exist
    NoParent,
    /// the name is a symbolic link whose target does not exist: the name exists (exclusive
    /// creation refuses it), opening it for writing creates the target
    DanglingSymlink,
}

#[derive(Clone, Debug, Serialize, Deserialize, PartialEq)]
pub enum C17Case {
    Mode { mode: u8, init: Init, kind: u8, n: u16, seed: u32, chunk: u16, #[serde(default)] name: u8 },
    /// SIGKILL the child after `acks` acknowledgements plus `spin` busy iterations
    Kill { mode: u8, init: Init, kind: u8, n: u16, seed: u32, chunk: u16, acks: u16, spin: u32 },
    /// Every return of `work()` is a crash point: the file as the kernel has it (read
    /// through another descriptor - what a SIGKILL at that instant would leave) must
    /// already contain everything consumed.  kind: 0 u8, 1 f32, 2 Complex, 3 u32;
    /// stream size index 0..4; batch sizes 1..=chunk_max from the case's own generator.
    Durable { kind: u8, n: u32, seed: u32, chunk_max: u32, stream: u8 },
    /// The destination is a FIFO whose reader (the harness) takes `piece` bytes at a time,
    /// so the sink's write blocks in the middle of a work() call; or `/dev/full`, where the
    /// write fails.  At every instant: bytes consumed from the stream <= bytes the kernel
    /// has accepted (read by the harness + pipe capacity); after an Err nothing of that
    /// call may count as consumed.  kind: 0 u8, 1 f32, 2 str (NoCopyFileSink).
    Blocked { kind: u8, n: u32, seed: u32, piece: u16, dev_full: bool },
    /// Append mode while somebody else appends to the same file between work() calls: the
    /// file must be old content ++ everything in the order it was written.
    AppendShared { kind: u8, n: u16, seed: u32, chunk: u16, every: u8 },
    /// several sinks are constructed in Create mode on the same absent path at the same
    /// moment: "create fails if and only if the file exists" => exactly one succeeds
    CreateRace { kind: u8, threads: u8, rounds: u8 },
    /// the file may not grow beyond `limit` bytes (RLIMIT_FSIZE in a child process: short
    /// writes, then EFBIG): whatever work() returns, what counts as consumed is in the file
    FileLimit { kind: u8, n: u32, seed: u32, limit: u32 },
    /// a producer task commits small pieces while the sink works, under the schedule explorer
    Interleaved { n: u16, seed: u32, piece: u8, decisions: Vec<u8> },
}

fn mode_str(m: u8) -> &'static str {
    ["c", "o", "a"][(m % 3) as usize]
}
fn kind_str(k: u8) -> &'static str {
    ["u8", "f32", "str"][(k % 3) as usize]
}

fn init_strategy() -> impl Strategy<Value = Init> {
    prop_oneof![
        3 => Just(Init::Absent),
        2 => Just(Init::Empty),
        3 => Just(Init::NonEmpty),
        1 => Just(Init::Directory),
        1 => Just(Init::UnderFile),
        1 => Just(Init::NoParent),
        1 => Just(Init::DanglingSymlink),
    ]
}

const OLD: &[u8] = b"previous content of the file\n\x00\x01\x02";

/// File names the API accepts (`AsRef<Path>`): plain, bytes that are not UTF-8, non-ASCII
/// UTF-8 with blanks, and a long name.
fn file_name(name: u8) -> std::ffi::OsString {
    use std::os::unix::ffi::OsStringExt;
    match name % 4 {
        0 => "out.bin".into(),
        1 => std::ffi::OsString::from_vec(b"caf\xe9 \xff\xfe.bin".to_vec()),
        2 => "s\u{e9}rie n\u{b0}7 \u{1f4e1}.bin".into(),
        _ => format!("{}.bin", "long-name-".repeat(20)).into(),
    }
}

fn prepare(sc: &Scratch, init: Init) -> std::path::PathBuf {
    prepare_named(sc, init, 0)
}

fn prepare_named(sc: &Scratch, init: Init, name: u8) -> std::path::PathBuf {
    let p = sc.path("x").with_file_name(file_name(name));
    match init {
        Init::Absent => {}
        Init::Empty => std::fs::write(&p, b"").unwrap(),
        Init::NonEmpty => std::fs::write(&p, OLD).unwrap(),
        Init::Directory => std::fs::create_dir(&p).unwrap(),
        Init::UnderFile => {
            std::fs::write(sc.path("plain"), b"x").unwrap();
            return sc.path("plain").join(file_name(name));
        }
        Init::NoParent => return sc.path("missing-dir").join(file_name(name)),
        Init::DanglingSymlink => {
            std::os::unix::fs::symlink(sc.path("target-that-does-not-exist.bin"), &p).unwrap();
        }
    }
    p
}

/// The documented modes: (constructor succeeds, content before the new data)
fn model(mode: u8, init: Init) -> Option<Vec<u8>> {
    match init {
        Init::Directory | Init::UnderFile | Init::NoParent => None,
        Init::Absent => Some(vec![]), // every mode creates the file (Create: only if absent)
        // the name exists: Create refuses it (O_EXCL semantics); the other modes create the target
        Init::DanglingSymlink => if mode % 3 == 0 { None } else { Some(vec![]) },
        Init::Empty | Init::NonEmpty => {
            let old = if init == Init::NonEmpty { OLD.to_vec() } else { vec![] };
            match mode % 3 {
                0 => None,             // Create fails iff the file exists
                1 => Some(vec![]),     // Overwrite leaves exactly the new data
                _ => Some(old),        // Append keeps existing content
            }
        }
    }
}

fn serialised(kind: u8, n: usize, seed: u64) -> (Vec<u8>, Vec<usize>) {
    // bytes of the whole stream, and the byte offset after each unit
    match kind % 3 {
        0 => {
            let d = sink_stream_u8(n, seed);
            let offs = (1..=n).collect();
            (d, offs)
        }
        1 => {
            let d = sink_stream_f32(n, seed);
            let bytes: Vec<u8> = d.iter().flat_map(|x| x.to_le_bytes()).collect();
            (bytes, (1..=n).map(|i| i * 4).collect())
        }
        _ => {
            let d = sink_stream_str(n, seed);
            let mut bytes = Vec::new();
            let mut offs = Vec::new();
            for s in d {
                bytes.extend(s.as_bytes());
                bytes.push(b'\n');
                offs.push(bytes.len());
            }
            (bytes, offs)
        }
    }
}

impl Prop for C17 {
    type Case = C17Case;
    fn id(&self) -> &'static str {
        "C17"
    }
    fn level(&self) -> &'static str {
        "fault_enumeration"
    }
    fn strategy(&self, tier: Tier) -> BoxedStrategy<C17Case> {
        let modes = (0u8..3, init_strategy(), 0u8..3, 0u16..3000, any::<u32>(), 1u16..3000, prop_oneof![2 => Just(0u8), 1 => 1u8..4])
            .prop_map(|(mode, init, kind, n, seed, chunk, name)| C17Case::Mode { mode, init, kind, n, seed, chunk, name });
        let kills = (
            0u8..3,
            prop_oneof![Just(Init::Absent), Just(Init::NonEmpty), Just(Init::Empty)],
            0u8..3,
            50u16..6000,
            any::<u32>(),
            prop_oneof![1u16..8, 1u16..300, 1u16..3000],
            prop_oneof![0u16..4, 0u16..60, 0u16..600],
            prop_oneof![Just(0u32), 0u32..200_000],
        )
            .prop_map(|(mode, init, kind, n, seed, chunk, acks, spin)| C17Case::Kill { mode, init, kind, n, seed, chunk, acks, spin });
        let kw = tier.pick(1, 1) as u32;
        let durable = (
            0u8..5,
            prop_oneof![0u32..3000, 0u32..40_000, 0u32..200_000],
            any::<u32>(),
            prop_oneof![1u32..10, 1u32..3000, 1u32..20_000, 1u32..200_000],
            0u8..4,
        )
            .prop_map(|(kind, n, seed, chunk_max, stream)| C17Case::Durable { kind, n, seed, chunk_max: chunk_max.max(n / 300), stream });
        // a few very large single batches: more than 2^20 samples in one work() window (only a
        // byte stream of the default size can hold that many)
        let durable_huge = (1_048_577u32..3_600_000, any::<u32>(), 1_048_577u32..3_600_000)
            .prop_map(|(n, seed, chunk_max)| C17Case::Durable { kind: 0, n, seed, chunk_max, stream: 3 });
        let durable = prop_oneof![30 => durable, 1 => durable_huge];
        let blocked = (0u8..3, prop_oneof![1u32..3000, 20_000u32..120_000], any::<u32>(), 1u16..20_000, prop::bool::weighted(0.25))
            .prop_map(|(kind, n, seed, piece, dev_full)| C17Case::Blocked { kind, n, seed, piece, dev_full });
        let shared = (0u8..3, 1u16..2000, any::<u32>(), 1u16..300, 1u8..5).prop_map(|(kind, n, seed, chunk, every)| C17Case::AppendShared { kind, n, seed, chunk, every });
        let race = (0u8..3, 2u8..9, 1u8..12).prop_map(|(kind, threads, rounds)| C17Case::CreateRace { kind, threads, rounds });
        let flimit = (0u8..2, 1u32..60_000, any::<u32>(), 0u32..200_000).prop_map(|(kind, n, seed, limit)| C17Case::FileLimit { kind, n, seed, limit });
        let inter = (1u16..4000, any::<u32>(), 1u8..40, crate::sched::decisions_strategy(300)).prop_map(|(n, seed, piece, decisions)| C17Case::Interleaved { n, seed, piece, decisions });
        prop_oneof![16 => modes, 2 => kills, 12 => durable, 2 => blocked, 2 => shared, 1 => race, 1 => flimit, 2 => inter].boxed()
    }
    fn cases(&self, tier: Tier) -> u64 {
        tier.pick(4_000, 40_000)
    }
    fn fixed_cases(&self, _tier: Tier) -> Vec<C17Case> {
        let mut v = Vec::new();
        for mode in 0..3 {
            for init in [Init::Absent, Init::Empty, Init::NonEmpty, Init::Directory, Init::UnderFile, Init::NoParent, Init::DanglingSymlink] {
                for kind in 0..3 {
                    // new data longer than, shorter than, and absent against the old content
                    for n in [700u16, 3, 0] {
                        v.push(C17Case::Mode { mode, init, kind, n, seed: 7, chunk: 97, name: 0 });
                    }
                    // other spellings of the file name: the named file is the one written
                    if matches!(init, Init::Absent | Init::NonEmpty) {
                        for name in 1..4 {
                            v.push(C17Case::Mode { mode, init, kind, n: 3, seed: 7, chunk: 97, name });
                        }
                    }
                }
            }
        }
        v
    }
    fn exhaustive_subdomains(&self) -> Vec<String> {
        vec!["open modes: {Create, Overwrite, Append} x {absent, empty, non-empty, directory, path under a regular file, missing parent, dangling symbolic link} x {FileSink<u8>, FileSink<f32>, NoCopyFileSink<String>} x new data {longer than the old content, shorter, none}".into()]
    }
    fn run(&self, case: &C17Case, ctx: &mut Ctx) {
        match case {
            C17Case::Mode { mode, init, kind, n, seed, chunk, name } => run_mode(*mode, *init, *kind, *n as usize, *seed as u64, *chunk as usize, *name, ctx),
            C17Case::FileLimit { kind, n, seed, limit } => run_file_limit(*kind, *n as usize, *seed as u64, *limit as u64, ctx),
            C17Case::Interleaved { n, seed, piece, decisions } => run_interleaved(*n as usize, *seed as u64, *piece as usize, decisions, ctx),
            C17Case::CreateRace { kind, threads, rounds } => run_create_race(*kind, *threads as usize, *rounds as usize, ctx),
            C17Case::AppendShared { kind, n, seed, chunk, every } => run_append_shared(*kind, *n as usize, *seed as u64, *chunk as usize, *every as usize, ctx),
            C17Case::Blocked { kind, n, seed, piece, dev_full } => run_blocked(*kind, *n as usize, *seed as u64, *piece as usize, *dev_full, ctx),
            C17Case::Durable { kind, n, seed, chunk_max, stream } => run_durable(*kind, *n as usize, *seed as u64, *chunk_max as u64, *stream, ctx),
            C17Case::Kill { mode, init, kind, n, seed, chunk, acks, spin } => {
                run_kill(*mode, *init, *kind, *n as usize, *seed as u64, *chunk as usize, *acks as usize, *spin, ctx)
            }
        }
    }
    fn rule(&self) -> String {
        "enumerated: open modes x initial file states x sink kinds x {700, 3, 0} units of new data (189 combinations) and, for absent / non-empty files, three further spellings of the file name (bytes that are not UTF-8, non-ASCII with blanks, 200 characters; 54 combinations), plus generated data lengths/chunkings; fault enumeration: a child process streams a seeded sequence through the sink and acknowledges the running count of consumed samples (raw write(2)) after every work() that returns; the parent SIGKILLs it after a generated number of acknowledgements plus a generated busy-wait. Oracle: constructor result and final file content equal a model of the documented modes (Create fails iff the path exists; Overwrite leaves exactly the new data; Append keeps old content and appends, creating the file if absent; structural impossibilities are Err); after a kill the file is (old content for Append ++) a byte prefix of the serialised stream, at least as long as the last acknowledged count. In-process crash-point enumeration ('durable' cases): FileSink<u8|f32|Complex|u32|a user-defined big-endian 16-bit sample type> on streams of 8 KiB, 64 KiB, 1 MiB and the default 4 MB, fed batches of 1..200 000 samples (and, for the byte sink on the default stream, a few batches of 1-3.6 million); after *every* work() that returns, the file is read through a second descriptor (exactly what a SIGKILL at that instant leaves behind, since the page cache survives the process) and must hold all consumed samples and be a prefix of the serialised stream. A size-limited file (RLIMIT_FSIZE in a child: short writes, then EFBIG): what counts as consumed is in the file, the file is a prefix. Interleaved producer: under the schedule explorer a producer task commits pieces of 1-39 samples while the sink works (a commit can land between any two stream operations of one work() call); with everything consumed the file must equal the serialised stream. Create raced from 2-8 threads on one absent path: exactly one constructor succeeds. Append with a second appender ('append-shared'): another handle appends markers to the file between work() calls; the file must be the old content followed by everything in the order it was written. Crash points inside a call ('blocked' cases): the destination is a FIFO drained by the harness in pieces, so the sink blocks in write(2) mid-call while the harness samples how much of the stream counts as consumed: bytes consumed <= bytes read from the FIFO + pipe capacity (+ one packet for the packet sink) at every observation - an invariant of any sink that consumes after writing, so timing can hide a violation but not produce one; and /dev/full, where the write fails: nothing of that call may count as consumed (stream sink). Non-trivial: a FIFO case with more data than the pipe holds, a durable case with >= 2 work() returns, a mode case whose initial state is not 'absent', or a kill that landed after >= 1 acknowledgement and before the end; distinct = hash of the case (kill timing is not part of the hash).".into()
    }
    fn assumptions(&self) -> Vec<String> {
        vec![
            "process death (SIGKILL), not power loss: data handed to the kernel counts as on disk".into(),
            "runs as root: permission-based 'unwritable' states are replaced by structural ones (directory, path below a file, missing parent)".into(),
            "the kill instant is not reproducible; the oracle holds for every instant".into(),
            "packet streams have no peek: the one packet NoCopyFileSink is writing was popped before the write, so during a call one packet may be in flight, and its loss after an Err return (write failure) is not asserted".into(),
        ]
    }
}

/// The producer runs in another task and commits while the sink is inside work(): every lock
/// and unlock of the stream is a scheduling point, so a commit can land between any two stream
/// operations of one work() call.  What was consumed must be in the file - all of it, since
/// the run ends with everything consumed.
fn run_interleaved(n: usize, seed: u64, piece: usize, decisions: &[u8], ctx: &mut Ctx) {
    use std::sync::atomic::{AtomicBool, AtomicUsize, Ordering};
    use std::sync::Arc;
    ctx.class("interleaved-producer");
    let sc = Scratch::new();
    let path = sc.path("interleaved.bin");
    let mut r = crate::gens::XRng::new(seed ^ 0x1e7);
    let data: Arc<Vec<u32>> = Arc::new((0..n).map(|_| r.next() as u32).collect());
    let bytes: Vec<u8> = data.iter().flat_map(|x| x.to_le_bytes()).collect();
    let err: Arc<std::sync::Mutex<Option<String>>> = Arc::new(std::sync::Mutex::new(None));
    let works = Arc::new(AtomicUsize::new(0));
    let (d2, p2, e2, w2) = (data.clone(), path.clone(), err.clone(), works.clone());
    let ex = crate::sched::explore(decisions, 2_000_000, move || {
        rustradio::verif::set_stream_size(Some(8192));
        let (w, rd) = rustradio::stream::new_stream::<u32>();
        rustradio::verif::set_stream_size(None);
        let mut sink = match FileSink::<u32>::new(rd, &p2, rustradio::file_sink::Mode::Create) {
            Ok(s) => s,
            Err(e) => {
                *e2.lock().unwrap() = Some(format!("ctor: {e}"));
                return;
            }
        };
        let done = Arc::new(AtomicBool::new(false));
        let (d3, done2) = (d2.clone(), done.clone());
        let prod = crate::sched::spawn("producer", move || {
            let mut pos = 0usize;
            let mut k = 0usize;
            while pos < d3.len() {
                k += 1;
                let m = (1 + (k * 7 + pos) % piece.max(1)).min(d3.len() - pos).min(w.free());
                if m == 0 {
                    crate::sched::hpoint();
                    continue;
                }
                let mut wb = w.write_buf().unwrap();
                wb.slice()[..m].copy_from_slice(&d3[pos..pos + m]);
                wb.produce(m, &[]);
                pos += m;
            }
            done2.store(true, Ordering::SeqCst);
            // keep the writer alive until the sink has seen everything
            drop(w);
        });
        let mut idle = 0;
        for _ in 0..200_000 {
            let was_done = done.load(Ordering::SeqCst);
            match sink.work() {
                Ok(rustradio::block::BlockRet::WaitForStream(_, _)) | Ok(rustradio::block::BlockRet::EOF) => {
                    if was_done {
                        idle += 1;
                        if idle > 2 {
                            break;
                        }
                    }
                    crate::sched::hpoint();
                }
                Ok(_) => idle = 0,
                Err(e) => {
                    *e2.lock().unwrap() = Some(format!("work: {e}"));
                    break;
                }
            }
            w2.fetch_add(1, Ordering::SeqCst);
        }
        let _ = prod.join();
    });
    if ex.panic.is_some() {
        if let Some(pi) = &ex.panic {
            if ex.step_bound_hit || ex.deadlock {
                ctx.skip("interleaved run did not finish within the step bound (inconclusive)");
            } else {
                ctx.fail(format!("C17/interleaved/panic/{}", crate::engine::loc_file(&pi.loc)), format!("panic at {}: {}", pi.loc, pi.msg));
            }
        }
        return;
    }
    if let Some(e) = err.lock().unwrap().clone() {
        ctx.fail("C17/interleaved/error".to_string(), e);
        return;
    }
    if works.load(Ordering::SeqCst) >= 3 && ex.preemptions > 0 {
        ctx.nontrivial();
    }
    let got = std::fs::read(&path).unwrap_or_default();
    if got != bytes {
        let first = got.iter().zip(bytes.iter()).position(|(a, b)| a != b).unwrap_or(got.len().min(bytes.len()));
        ctx.fail(
            "C17/interleaved/consumed-data-not-in-file".to_string(),
            format!("a producer committed {n} samples in pieces of up to {piece} while the sink worked ({} work() calls, {} pre-emptions): everything was consumed, the file has {} bytes, the stream {} bytes; first difference at byte {first}", works.load(Ordering::SeqCst), ex.preemptions, got.len(), bytes.len()),
        );
    }
}

fn run_mode(mode: u8, init: Init, kind: u8, n: usize, seed: u64, chunk: usize, name: u8, ctx: &mut Ctx) {
    ctx.class(format!("mode={} init={init:?}", mode_str(mode)));
    if init != Init::Absent {
        ctx.nontrivial();
    }
    if name % 4 != 0 {
        ctx.class(format!("file-name={}", ["plain", "not-utf8", "non-ascii", "long"][name as usize % 4]));
    }
    let sc = Scratch::new();
    let path = prepare_named(&sc, init, name);
    let want = model(mode, init);
    let (bytes, _) = serialised(kind, n, seed);
    rustradio::verif::set_stream_size(Some(8192));
    let r = catch(|| -> Result<(), String> {
        match kind % 3 {
            2 => {
                let data = sink_stream_str(n, seed);
                let (w, rd) = rustradio::stream::new_nocopy_stream::<String>();
                let mut sink = NoCopyFileSink::<String>::new(rd, &path, mode_of(mode_str(mode))).map_err(|e| format!("ctor: {e}"))?;
                for s in data {
                    w.push(s, &[]);
                    sink.work().map_err(|e| format!("work: {e}"))?;
                }
                Ok(())
            }
            k => {
                macro_rules! go {
                    ($t:ty, $d:expr) => {{
                        let data: Vec<$t> = $d;
                        let (w, rd) = rustradio::stream::new_stream::<$t>();
                        let mut sink = FileSink::<$t>::new(rd, &path, mode_of(mode_str(mode))).map_err(|e| format!("ctor: {e}"))?;
                        let mut pos = 0;
                        while pos < data.len() {
                            let m = chunk.max(1).min(data.len() - pos).min(w.free());
                            let mut wb = w.write_buf().unwrap();
                            wb.slice()[..m].copy_from_slice(&data[pos..pos + m]);
                            wb.produce(m, &[]);
                            pos += m;
                            sink.work().map_err(|e| format!("work: {e}"))?;
                        }
                        Ok(())
                    }};
                }
                if k == 0 { go!(u8, sink_stream_u8(n, seed)) } else { go!(f32, sink_stream_f32(n, seed)) }
            }
        }
    });
    rustradio::verif::set_stream_size(None);
    let what = format!("{} sink, mode {}, initial state {init:?}", kind_str(kind), mode_str(mode));
    match (r, want) {
        (Err(pi), _) => ctx.fail(format!("C17/panic/{}", crate::engine::loc_file(&pi.loc)), format!("{what}: panic at {}: {}", pi.loc, pi.msg)),
        (Ok(Err(e)), None) if e.starts_with("ctor") => {}
        (Ok(Err(e)), Some(_)) => ctx.fail(
            format!("C17/mode/{}-{init:?}-refused", mode_str(mode)),
            format!("{what}: documented to succeed, but: {e}"),
        ),
        (Ok(Err(e)), None) => ctx.fail(format!("C17/mode/late-error"), format!("{what}: constructor succeeded, later: {e}")),
        (Ok(Ok(())), None) => ctx.fail(
            format!("C17/mode/{}-{init:?}-accepted", mode_str(mode)),
            format!("{what}: documented to fail, but the constructor succeeded"),
        ),
        (Ok(Ok(())), Some(mut pre)) => {
            pre.extend(&bytes);
            let got = std::fs::read(&path).unwrap_or_default();
            if got != pre {
                ctx.fail(
                    format!("C17/mode/{}-{init:?}-content", mode_str(mode)),
                    format!("{what}: file has {} bytes, model says {} (first difference at {:?})", got.len(), pre.len(), got.iter().zip(pre.iter()).position(|(a, b)| a != b)),
                );
            }
        }
    }
}

/// A file that cannot take the whole batch: the sink must not count as consumed what is not
/// in the file.
fn run_file_limit(kind: u8, n: usize, seed: u64, limit: u64, ctx: &mut Ctx) {
    ctx.class("file-size-limit");
    let sc = Scratch::new();
    let path = sc.path("limited.bin");
    let kname = if kind % 2 == 0 { "u8" } else { "f32" };
    let args = vec!["child".to_string(), "fsize".into(), path.to_str().unwrap().to_string(), kname.to_string(), limit.to_string(), n.to_string(), seed.to_string()];
    let (code, out) = run_child(&args, 60);
    let Some(v) = parse_child(&out) else {
        if code == Some(3) {
            ctx.skip("sink could not be opened under the limit");
        } else {
            ctx.fail("C17/file-limit/child-died".to_string(), format!("child {args:?} ended with {code:?}: {}", out.chars().take(300).collect::<String>()));
        }
        return;
    };
    let consumed = v["consumed_bytes"].as_u64().unwrap_or(0);
    let len = v["file_len"].as_u64().unwrap_or(0);
    let fed = v["fed"].as_u64().unwrap_or(0) * if kind % 2 == 0 { 1 } else { 4 };
    if fed > limit {
        ctx.nontrivial();
        ctx.class("file-size-limit/batch-crosses-the-limit");
    }
    if len < consumed {
        ctx.fail(
            format!("C17/file-limit/consumed-data-not-in-file/{kname}"),
            format!("FileSink<{kname}> with the file limited to {limit} bytes: {consumed} bytes count as consumed (work() results {}), the file holds {len}", v["work_ok"]),
        );
        return;
    }
    let (bytes, _) = serialised(kind % 2, n, seed);
    let got = std::fs::read(&path).unwrap_or_default();
    if got.len() > bytes.len() || got[..] != bytes[..got.len()] {
        ctx.fail("C17/file-limit/not-a-prefix".to_string(), format!("the {} bytes in the size-limited file are not a prefix of the serialised stream", got.len()));
    }
}

/// Create mode from several threads at once: exclusive creation lets exactly one through.
fn run_create_race(kind: u8, threads: usize, rounds: usize, ctx: &mut Ctx) {
    ctx.class("create-race");
    ctx.nontrivial();
    let sc = Scratch::new();
    for round in 0..rounds.max(1) {
        let path = sc.path(&format!("race{round}.bin"));
        let barrier = std::sync::Barrier::new(threads.max(2));
        let winners = std::sync::atomic::AtomicUsize::new(0);
        std::thread::scope(|s| {
            for _ in 0..threads.max(2) {
                s.spawn(|| {
                    barrier.wait();
                    let ok = match kind % 3 {
                        2 => {
                            let (_w, rd) = rustradio::stream::new_nocopy_stream::<String>();
                            NoCopyFileSink::<String>::new(rd, &path, rustradio::file_sink::Mode::Create).is_ok()
                        }
                        0 => {
                            let (_w, rd) = rustradio::stream::new_stream::<u8>();
                            FileSink::<u8>::new(rd, &path, rustradio::file_sink::Mode::Create).is_ok()
                        }
                        _ => {
                            let (_w, rd) = rustradio::stream::new_stream::<f32>();
                            FileSink::<f32>::new(rd, &path, rustradio::file_sink::Mode::Create).is_ok()
                        }
                    };
                    if ok {
                        winners.fetch_add(1, std::sync::atomic::Ordering::SeqCst);
                    }
                });
            }
        });
        let w = winners.load(std::sync::atomic::Ordering::SeqCst);
        if w != 1 {
            ctx.fail(
                "C17/create-race/winners".to_string(),
                format!("{} threads constructed a {} sink in Create mode on one absent path at once: {w} constructors succeeded (round {round})", threads.max(2), kind_str(kind)),
            );
            return;
        }
    }
}

/// "Append keeps existing content and adds to it" - also when the end of the file moves
/// between two work() calls because another writer appends to the same file.
fn run_append_shared(kind: u8, n: usize, seed: u64, chunk: usize, every: usize, ctx: &mut Ctx) {
    use std::io::Write;
    ctx.class("append-shared");
    ctx.nontrivial();
    let sc = Scratch::new();
    let path = prepare(&sc, Init::NonEmpty);
    let mut want: Vec<u8> = OLD.to_vec();
    let mut other = std::fs::OpenOptions::new().append(true).open(&path).expect("second appender");
    let every = every.max(1);
    rustradio::verif::set_stream_size(Some(8192));
    let r = catch(|| -> Result<Vec<u8>, String> {
        let mut want = want.clone();
        let mut calls = 0usize;
        let mut marker = |calls: usize, want: &mut Vec<u8>| {
            if calls % every == 0 {
                let m = format!("<{calls}>");
                other.write_all(m.as_bytes()).expect("external append");
                want.extend(m.as_bytes());
            }
        };
        match kind % 3 {
            2 => {
                let data = sink_stream_str(n.min(400), seed);
                let (w, rd) = rustradio::stream::new_nocopy_stream::<String>();
                let mut sink = NoCopyFileSink::<String>::new(rd, &path, rustradio::file_sink::Mode::Append).map_err(|e| format!("ctor: {e}"))?;
                for s in data {
                    want.extend(s.as_bytes());
                    want.push(b'\n');
                    w.push(s, &[]);
                    sink.work().map_err(|e| format!("work: {e}"))?;
                    calls += 1;
                    marker(calls, &mut want);
                }
            }
            k => {
                macro_rules! go {
                    ($t:ty, $d:expr, $ser:expr) => {{
                        let data: Vec<$t> = $d;
                        let (w, rd) = rustradio::stream::new_stream::<$t>();
                        let mut sink = FileSink::<$t>::new(rd, &path, rustradio::file_sink::Mode::Append).map_err(|e| format!("ctor: {e}"))?;
                        let mut pos = 0;
                        while pos < data.len() {
                            let m = chunk.max(1).min(data.len() - pos).min(w.free());
                            {
                                let mut wb = w.write_buf().unwrap();
                                wb.slice()[..m].copy_from_slice(&data[pos..pos + m]);
                                wb.produce(m, &[]);
                            }
                            for x in &data[pos..pos + m] {
                                want.extend($ser(x));
                            }
                            pos += m;
                            sink.work().map_err(|e| format!("work: {e}"))?;
                            calls += 1;
                            marker(calls, &mut want);
                        }
                    }};
                }
                if k == 0 {
                    go!(u8, sink_stream_u8(n, seed), |x: &u8| vec![*x])
                } else {
                    go!(f32, sink_stream_f32(n, seed), |x: &f32| x.to_le_bytes().to_vec())
                }
            }
        }
        Ok(want)
    });
    rustradio::verif::set_stream_size(None);
    match r {
        Err(pi) => ctx.fail(format!("C17/panic/{}", crate::engine::loc_file(&pi.loc)), format!("append-shared: panic at {}: {}", pi.loc, pi.msg)),
        Ok(Err(e)) => ctx.fail("C17/append-shared/error".to_string(), format!("Append on an existing file: {e}")),
        Ok(Ok(w)) => {
            want = w;
            let got = std::fs::read(&path).unwrap_or_default();
            if got != want {
                ctx.fail(
                    "C17/append-shared/content".to_string(),
                    format!(
                        "{} sink in Append mode with a second appender on the file: {} bytes on disk, {} written in total; first difference at {:?}",
                        kind_str(kind),
                        got.len(),
                        want.len(),
                        got.iter().zip(want.iter()).position(|(a, b)| a != b)
                    ),
                );
            }
        }
    }
}

/// Crash points *inside* a work() call: the sink thread is stuck in write(2) on a FIFO (or
/// gets ENOSPC from /dev/full) while the harness watches how much of the stream counts as
/// consumed.  The invariant holds at every instant for a sink that consumes after writing,
/// so timing can only hide a violation, never produce one.
fn run_blocked(kind: u8, n: usize, seed: u64, piece: usize, dev_full: bool, ctx: &mut Ctx) {
    use std::io::Read;
    use std::os::fd::AsRawFd;
    use std::os::unix::fs::OpenOptionsExt;
    let tname = ["u8", "f32", "str"][(kind % 3) as usize];
    ctx.class(format!("blocked/{}/{tname}", if dev_full { "dev-full" } else { "fifo" }));
    let sc = Scratch::new();
    let (bytes, offs) = serialised(kind, n, seed);
    if dev_full {
        // the write fails: whatever work() returns, samples not in the "file" must not be consumed
        rustradio::verif::set_stream_size(Some(1 << 20));
        let r = catch(|| -> Option<String> {
            match kind % 3 {
                2 => {
                    let data = sink_stream_str(n.min(2000), seed);
                    let (w, rd) = rustradio::stream::new_nocopy_stream::<String>();
                    let mut sink = NoCopyFileSink::<String>::new(rd, "/dev/full", rustradio::file_sink::Mode::Append).ok()?;
                    let mut pushed = 0usize;
                    for s in data {
                        if s.is_empty() {
                            continue;
                        }
                        w.push(s, &[]);
                        pushed += 1;
                        let before = w.verif_len();
                        let res = sink.work();
                        let after = w.verif_len();
                        // (a packet stream has no peek: the packet being written was popped before
                        // the write, so its loss after an Err return is inherent and not asserted)
                        let _ = pushed;
                        if res.is_ok() && after < before {
                            return Some(format!("NoCopyFileSink on /dev/full: work() returned Ok and consumed {} packets that cannot be in the file", before - after));
                        }
                    }
                    None
                }
                k => {
                    macro_rules! go {
                        ($t:ty, $d:expr) => {{
                            let data: Vec<$t> = $d;
                            let (w, rd) = rustradio::stream::new_stream::<$t>();
                            let mut sink = FileSink::<$t>::new(rd, "/dev/full", rustradio::file_sink::Mode::Append).ok()?;
                            let m = data.len().min(w.free());
                            if m == 0 {
                                return None;
                            }
                            let cap = w.free();
                            {
                                let mut wb = w.write_buf().unwrap();
                                wb.slice()[..m].copy_from_slice(&data[..m]);
                                wb.produce(m, &[]);
                            }
                            let res = sink.work();
                            let consumed = m - (cap - w.free());
                            if consumed > 0 {
                                return Some(format!(
                                    "FileSink<{tname}> on /dev/full: work() returned {}, and {consumed} of {m} samples count as consumed although none can be in the file",
                                    if res.is_err() { "Err" } else { "Ok" }
                                ));
                            }
                            None
                        }};
                    }
                    if k == 0 { go!(u8, sink_stream_u8(n, seed)) } else { go!(f32, sink_stream_f32(n, seed)) }
                }
            }
        });
        rustradio::verif::set_stream_size(None);
        if n > 0 {
            ctx.nontrivial();
        }
        match r {
            Err(pi) => ctx.fail(format!("C17/panic/{}", crate::engine::loc_file(&pi.loc)), format!("sink on /dev/full: panic at {}: {}", pi.loc, pi.msg)),
            Ok(Some(msg)) => ctx.fail(format!("C17/blocked/consumed-but-write-failed/{tname}"), msg),
            Ok(None) => {}
        }
        return;
    }
    // FIFO
    let path = sc.path("fifo");
    let cpath = std::ffi::CString::new(path.to_str().unwrap()).unwrap();
    if unsafe { libc::mkfifo(cpath.as_ptr(), 0o600) } != 0 {
        ctx.skip("mkfifo failed");
        return;
    }
    let Ok(mut rd_end) = std::fs::OpenOptions::new().read(true).custom_flags(libc::O_NONBLOCK).open(&path) else {
        ctx.skip("cannot open the FIFO");
        return;
    };
    let pipe_cap = unsafe { libc::fcntl(rd_end.as_raw_fd(), libc::F_GETPIPE_SZ) }.max(4096) as usize;
    rustradio::verif::set_stream_size(Some(1 << 20));
    // everything is committed to the stream up front; `consumed()` reads the writer side
    let unit_off = |units: usize| if units == 0 { 0 } else { offs[units - 1] };
    enum W {
        U8(rustradio::stream::WriteStream<u8>, usize),
        F32(rustradio::stream::WriteStream<f32>, usize),
        Str(rustradio::stream::NCWriteStream<String>),
    }
    let total_units;
    let (wside, mut sink): (W, Box<dyn Block + Send>) = match kind % 3 {
        2 => {
            let data = sink_stream_str(n, seed);
            let (w, rd) = rustradio::stream::new_nocopy_stream::<String>();
            let Ok(sink) = NoCopyFileSink::<String>::new(rd, &path, rustradio::file_sink::Mode::Append) else {
                rustradio::verif::set_stream_size(None);
                ctx.skip("sink refused the FIFO");
                return;
            };
            total_units = data.len();
            for s in data {
                w.push(s, &[]);
            }
            (W::Str(w), Box::new(sink))
        }
        0 => {
            let data = sink_stream_u8(n, seed);
            let (w, rd) = rustradio::stream::new_stream::<u8>();
            let Ok(sink) = FileSink::<u8>::new(rd, &path, rustradio::file_sink::Mode::Append) else {
                rustradio::verif::set_stream_size(None);
                ctx.skip("sink refused the FIFO");
                return;
            };
            let cap = w.free();
            let m = data.len().min(cap);
            total_units = m;
            if m > 0 {
                let mut wb = w.write_buf().unwrap();
                wb.slice()[..m].copy_from_slice(&data[..m]);
                wb.produce(m, &[]);
            }
            (W::U8(w, cap), Box::new(sink))
        }
        _ => {
            let data = sink_stream_f32(n, seed);
            let (w, rd) = rustradio::stream::new_stream::<f32>();
            let Ok(sink) = FileSink::<f32>::new(rd, &path, rustradio::file_sink::Mode::Append) else {
                rustradio::verif::set_stream_size(None);
                ctx.skip("sink refused the FIFO");
                return;
            };
            let cap = w.free();
            let m = data.len().min(cap);
            total_units = m;
            if m > 0 {
                let mut wb = w.write_buf().unwrap();
                wb.slice()[..m].copy_from_slice(&data[..m]);
                wb.produce(m, &[]);
            }
            (W::F32(w, cap), Box::new(sink))
        }
    };
    rustradio::verif::set_stream_size(None);
    let consumed_units = |w: &W| -> usize {
        match w {
            W::U8(w, cap) => total_units - (cap - w.free()),
            W::F32(w, cap) => total_units - (cap - w.free()),
            W::Str(w) => total_units - w.verif_len(),
        }
    };
    let total_bytes = unit_off(total_units);
    let done = std::sync::Arc::new(std::sync::atomic::AtomicBool::new(false));
    let d2 = done.clone();
    let worker = std::thread::spawn(move || {
        // one packet per call for the packet sink, everything for the sample sink
        let mut calls = 0usize;
        let r = catch(|| {
            loop {
                match sink.work() {
                    Err(e) => return Err(format!("{e}")),
                    Ok(rustradio::block::BlockRet::Again) => {}
                    Ok(_) => return Ok(()),
                }
                calls += 1;
                if calls > total_units + 2 {
                    return Ok(());
                }
            }
        });
        d2.store(true, std::sync::atomic::Ordering::SeqCst);
        drop(sink);
        r
    });
    let mut got: Vec<u8> = Vec::with_capacity(total_bytes);
    // at most ~400 reads per case
    let mut buf = vec![0u8; piece.max(1).max(total_bytes / 400)];
    // a packet stream has no peek: the one packet being written is legitimately in flight
    let in_flight = if kind % 3 == 2 { offs.iter().scan(0usize, |p, o| { let l = *o - *p; *p = *o; Some(l) }).max().unwrap_or(0) } else { 0 };
    let mut worst: Option<(usize, usize)> = None;
    let mut observations = 0u64;
    let t0 = std::time::Instant::now();
    let mut idle_since = std::time::Instant::now();
    loop {
        // observe first, then let some bytes through
        let c = consumed_units(&wside);
        let accepted_at_most = got.len() + pipe_cap + in_flight;
        observations += 1;
        if unit_off(c) > accepted_at_most && worst.is_none() {
            worst = Some((c, got.len()));
        }
        if got.len() >= total_bytes {
            break;
        }
        // give the sink a moment to block in write(2) before draining a piece
        std::thread::sleep(std::time::Duration::from_micros(200));
        match rd_end.read(&mut buf) {
            Ok(0) => {
                if done.load(std::sync::atomic::Ordering::SeqCst) {
                    break;
                }
            }
            Ok(k) => {
                got.extend_from_slice(&buf[..k]);
                idle_since = std::time::Instant::now();
            }
            Err(e) if e.kind() == std::io::ErrorKind::WouldBlock => {
                if done.load(std::sync::atomic::Ordering::SeqCst) && idle_since.elapsed().as_millis() > 20 {
                    break;
                }
            }
            Err(_) => break,
        }
        if t0.elapsed().as_secs() > 20 {
            break;
        }
    }
    drop(rd_end);
    let wr = worker.join();
    ctx.count("blocked_observations", observations);
    if total_bytes > pipe_cap {
        ctx.nontrivial();
        ctx.class("blocked/fifo/more-than-pipe-capacity");
    }
    if let Some((c, read)) = worst {
        ctx.fail(
            format!("C17/blocked/consumed-before-written/{tname}"),
            format!(
                "{} on a FIFO: {c} units ({} bytes) counted as consumed while the reader had taken {read} bytes and the pipe holds at most {pipe_cap}: at least {} bytes existed only in the sink's memory",
                if kind % 3 == 2 { "NoCopyFileSink<String>" } else { "FileSink" },
                unit_off(c),
                unit_off(c) - read - pipe_cap
            ),
        );
    }
    match wr {
        Ok(Err(pi)) => ctx.fail(format!("C17/panic/{}", crate::engine::loc_file(&pi.loc)), format!("sink on a FIFO: panic at {}: {}", pi.loc, pi.msg)),
        Ok(Ok(Err(_e))) => {} // EPIPE after the reader left is fine
        _ => {}
    }
    if got.len() <= bytes.len() && got[..] != bytes[..got.len()] {
        ctx.fail("C17/blocked/not-a-prefix".to_string(), format!("the {} bytes read from the FIFO are not a prefix of the serialised stream", got.len()));
    }
}

/// In-process crash-point enumeration: after every `work()` that returns, the file must
/// hold all consumed samples and be a prefix of the serialised stream.
fn run_durable(kind: u8, n: usize, seed: u64, chunk_max: u64, stream: u8, ctx: &mut Ctx) {
    use rustradio::Sample;
    use std::io::{Read, Seek, SeekFrom};
    let tname = ["u8", "f32", "Complex", "u32", "Be16"][(kind % 5) as usize];
    ctx.class(format!("durable/{tname}"));
    let sc = Scratch::new();
    let path = sc.path("durable.bin");
    rustradio::verif::set_stream_size([Some(8192usize), Some(65536), Some(1 << 20), None][(stream % 4) as usize]);
    let mut works = 0u64;
    let mut biggest = 0usize;
    let r = catch(|| -> Result<Option<(String, String)>, String> {
        macro_rules! go {
            ($t:ty, $mk:expr, $ser:expr) => {{
                let mut r = crate::gens::XRng::new(seed ^ 0xd07a);
                let data: Vec<$t> = (0..n).map(|_| $mk(&mut r)).collect();
                let ssz = <$t as Sample>::size();
                let bytes: Vec<u8> = data.iter().flat_map($ser).collect();
                let (w, rd) = rustradio::stream::new_stream::<$t>();
                let mut sink = FileSink::<$t>::new(rd, &path, rustradio::file_sink::Mode::Create).map_err(|e| format!("ctor: {e}"))?;
                let mut f = std::fs::File::open(&path).map_err(|e| format!("open: {e}"))?;
                let cap = w.free();
                let mut pos = 0usize;
                let mut checked = 0usize;
                loop {
                    let m = (1 + r.below(chunk_max) as usize).min(data.len() - pos).min(w.free());
                    if m > 0 {
                        let mut wb = w.write_buf().unwrap();
                        wb.slice()[..m].copy_from_slice(&data[pos..pos + m]);
                        wb.produce(m, &[]);
                        pos += m;
                    }
                    biggest = biggest.max(m);
                    sink.work().map_err(|e| format!("work: {e}"))?;
                    works += 1;
                    let consumed = pos - (cap - w.free());
                    let len = f.metadata().map_err(|e| format!("stat: {e}"))?.len() as usize;
                    if len < consumed * ssz {
                        return Ok(Some((
                            format!("C17/durable/consumed-data-not-in-file/{tname}"),
                            format!("FileSink<{tname}>: after work() call {works} (batch of {m} samples, {consumed} consumed in total = {} bytes) the file holds {len} bytes", consumed * ssz),
                        )));
                    }
                    if len > bytes.len() {
                        return Ok(Some((format!("C17/durable/not-a-prefix/{tname}"), format!("file has {len} bytes, the whole stream only {}", bytes.len()))));
                    }
                    if len > checked {
                        let mut buf = vec![0u8; len - checked];
                        f.seek(SeekFrom::Start(checked as u64)).map_err(|e| format!("seek: {e}"))?;
                        f.read_exact(&mut buf).map_err(|e| format!("read: {e}"))?;
                        if buf[..] != bytes[checked..len] {
                            return Ok(Some((format!("C17/durable/not-a-prefix/{tname}"), format!("file bytes {checked}..{len} differ from the serialised stream"))));
                        }
                        checked = len;
                    }
                    if pos == data.len() && consumed == pos {
                        break;
                    }
                    if works > 5_000 {
                        break;
                    }
                }
                Ok(None)
            }};
        }
        match kind % 5 {
            // a user-defined sample type that is big-endian on the wire: what reaches the file
            // is what serialize() returns, not the memory image
            4 => go!(crate::drip::Be16, |r: &mut crate::gens::XRng| crate::drip::Be16(r.next() as u16), |x: &crate::drip::Be16| x.0.to_be_bytes().to_vec()),
            0 => go!(u8, |r: &mut crate::gens::XRng| r.next() as u8, |x: &u8| vec![*x]),
            1 => go!(f32, |r: &mut crate::gens::XRng| r.unit(), |x: &f32| x.to_le_bytes().to_vec()),
            2 => go!(rustradio::Complex, |r: &mut crate::gens::XRng| rustradio::Complex::new(r.unit(), r.unit()), |x: &rustradio::Complex| [x.re.to_le_bytes(), x.im.to_le_bytes()].concat()),
            _ => go!(u32, |r: &mut crate::gens::XRng| r.next() as u32, |x: &u32| x.to_le_bytes().to_vec()),
        }
    });
    rustradio::verif::set_stream_size(None);
    if works >= 2 && n > 0 {
        ctx.nontrivial();
    }
    ctx.count("durable_work_returns_checked", works);
    if biggest >= 2048 {
        ctx.class("durable/batch>=2048-samples");
    }
    match r {
        Err(pi) => ctx.fail(format!("C17/panic/{}", crate::engine::loc_file(&pi.loc)), format!("FileSink<{tname}>: panic at {}: {}", pi.loc, pi.msg)),
        Ok(Err(e)) => ctx.fail("C17/durable/error".to_string(), format!("FileSink<{tname}> on a fresh path: {e}")),
        Ok(Ok(Some((sig, msg)))) => ctx.fail(sig, msg),
        Ok(Ok(None)) => {}
    }
}

#[allow(clippy::too_many_arguments)]
fn run_kill(mode: u8, init: Init, kind: u8, n: usize, seed: u64, chunk: usize, acks: usize, spin: u32, ctx: &mut Ctx) {
    ctx.class("kill-case");
    let Some(pre) = model(mode, init) else {
        ctx.skip("constructor documented to fail: nothing to kill");
        return;
    };
    let sc = Scratch::new();
    let path = prepare(&sc, init);
    let exe = std::env::current_exe().expect("exe");
    let mut child = match Command::new(exe)
        .args(["child", "sink", path.to_str().unwrap(), mode_str(mode), kind_str(kind), &n.to_string(), &seed.to_string(), &chunk.to_string()])
        .stdin(Stdio::null())
        .stdout(Stdio::piped())
        .stderr(Stdio::null())
        .spawn()
    {
        Ok(c) => c,
        Err(e) => {
            ctx.skip(format!("cannot spawn child: {e}"));
            return;
        }
    };
    let mut rd = BufReader::new(child.stdout.take().unwrap());
    let mut last_ack = 0usize;
    let mut seen = 0usize;
    let mut finished = false;
    let mut line = String::new();
    // wait until the sink exists (the constructor has opened / truncated / created the file)
    let mut is_ready = false;
    loop {
        line.clear();
        match rd.read_line(&mut line) {
            Ok(0) | Err(_) => break,
            Ok(_) => {
                if line.trim() == "R" {
                    is_ready = true;
                    break;
                }
            }
        }
    }
    while is_ready && seen < acks {
        line.clear();
        match rd.read_line(&mut line) {
            Ok(0) | Err(_) => break,
            Ok(_) => {
                if let Ok(v) = line.trim().parse::<usize>() {
                    if v == usize::MAX {
                        finished = true;
                        break;
                    }
                    last_ack = v;
                    seen += 1;
                }
            }
        }
    }
    let mut x = 0u64;
    for i in 0..spin {
        x = x.wrapping_add(std::hint::black_box(i as u64));
    }
    std::hint::black_box(x);
    unsafe { libc::kill(child.id() as i32, libc::SIGKILL) };
    let status = child.wait();
    // drain late acknowledgements that were already in the pipe: they were made before death
    loop {
        line.clear();
        match rd.read_line(&mut line) {
            Ok(0) | Err(_) => break,
            Ok(_) => {
                if let Ok(v) = line.trim().parse::<usize>() {
                    if v == usize::MAX {
                        finished = true;
                    } else {
                        last_ack = last_ack.max(v);
                    }
                }
            }
        }
    }
    if let Ok(st) = status {
        if let Some(code) = st.code() {
            if code == 3 {
                ctx.fail(
                    format!("C17/mode/{}-{init:?}-refused", mode_str(mode)),
                    format!("child: {} sink constructor failed for mode {} on initial state {init:?}", kind_str(kind), mode_str(mode)),
                );
                return;
            }
            if code == 4 {
                ctx.fail("C17/kill/work-error".to_string(), "child: work() returned an error".to_string());
                return;
            }
        }
    }
    let (bytes, offs) = serialised(kind, n, seed);
    let got = std::fs::read(&path).unwrap_or_default();
    let what = format!("{} sink, mode {}, initial {init:?}, killed after {seen} acknowledgements (last acknowledged count {last_ack})", kind_str(kind), mode_str(mode));
    if got.len() < pre.len() || got[..pre.len()] != pre[..] {
        ctx.fail("C17/kill/old-content".to_string(), format!("{what}: the file does not start with the content it must keep ({} bytes)", pre.len()));
        return;
    }
    let body = &got[pre.len()..];
    if body.len() > bytes.len() || body[..] != bytes[..body.len()] {
        ctx.fail("C17/kill/not-a-prefix".to_string(), format!("{what}: file body ({} bytes) is not a prefix of the serialised stream ({} bytes)", body.len(), bytes.len()));
        return;
    }
    let need = if last_ack == 0 { 0 } else { offs[last_ack.min(offs.len()) - 1] };
    if body.len() < need {
        ctx.fail(
            "C17/kill/acknowledged-data-missing".to_string(),
            format!("{what}: {last_ack} units were acknowledged as consumed (= {need} bytes) but the file holds only {} bytes of them", body.len()),
        );
        return;
    }
    if finished && body.len() != bytes.len() {
        ctx.fail("C17/kill/incomplete-after-finish".to_string(), format!("{what}: everything was acknowledged but the file has {} of {} bytes", body.len(), bytes.len()));
    }
    if last_ack > 0 && !finished {
        ctx.class("killed-mid-stream-after-ack");
        ctx.nontrivial();
    }
}
