//! C18 — streams release every mapping and descriptor; the two halves always alias.
use std::sync::Arc;

use proptest::prelude::*;
use rustradio::circular_buffer::Buffer;
use serde::{Deserialize, Serialize};
use serde_json::json;

use crate::engine::{Ctx, Extra, Failure, Prop, Tier, catch, hash_json};
use crate::osfault::*;
use crate::ring::{BAD_SIZES, ElemKind, GOOD_SIZES};

pub struct C18;

/// Page multiples that the kernel may or may not be able to back (file size limit of the
/// backing file system, address space, `off_t` range of `2*size`): either outcome of
/// `Buffer::new` is accepted, a panic or anything left behind is not.  `2*size` fits a
/// `usize` for all of them.
pub const HUGE_SIZES: &[usize] = &[
    1 << 31, 1 << 36, 1 << 40, 1 << 44, 1 << 45, 1 << 46, (1 << 46) + 4096, 1 << 47, 1 << 50, 1 << 55, 1 << 61,
    1 << 62, (1 << 62) + 4096, (1 << 62) + (1 << 40), (1 << 63) - 4096,
];
const HUGE: usize = 1 << 30;

fn elem_strategy() -> BoxedStrategy<ElemKind> {
    prop::sample::select(
        &[
            ElemKind::U8, ElemKind::U16, ElemKind::U32, ElemKind::U64, ElemKind::B16, ElemKind::F32, ElemKind::C32,
            ElemKind::B3, ElemKind::B12, ElemKind::Zst,
        ][..],
    )
    .boxed()
}

#[derive(Clone, Debug, Serialize, Deserialize, PartialEq)]
pub enum C18Case {
    /// create/drop history: streams (pages, elem index) are created by the main thread and by
    /// `threads` workers; each stream is dropped by the thread `owner % threads` in `order`.
    /// `unwind`: the worker threads do not drop their buffers normally but panic while
    /// owning them (the buffers are released by stack unwinding)
    History { threads: u8, streams: Vec<(u8, u8, u8)>, use_them: bool, #[serde(default)] unwind: bool },
    /// set-up table entry
    Setup { elem: ElemKind, size: usize },
    /// elements of a page and more: [u8; 4096 << big] x `pages` pages; those that do not
    /// divide the size must be refused (some divide 2*size - the length of the double
    /// mapping - but not size)
    SetupBig { big: u8, pages: u8 },
    /// concurrent create/use/drop in a child process (a crash of the child is a violation):
    /// half of the threads hold pools of 1-8 page buffers and keep re-verifying their content,
    /// the others churn bigger buffers (`big`: multiples of 2 MiB)
    Churn { threads: u8, rounds: u16, seed: u32, big: bool, #[serde(default)] refuse: bool },
    /// aliasing of the two halves: every byte offset
    Alias { pages: u8, shift: u16 },
}

fn history_strategy(max_streams: usize) -> BoxedStrategy<C18Case> {
    (
        1u8..9,
        prop::collection::vec((1u8..9, 0u8..4, any::<u8>()), 1..max_streams),
        any::<bool>(),
        prop::bool::weighted(0.3),
    )
        .prop_map(|(threads, streams, use_them, unwind)| C18Case::History { threads, streams, use_them, unwind })
        .boxed()
}

enum AnyBuf {
    A(Arc<Buffer<u8>>),
    B(Arc<Buffer<u32>>),
    C(Arc<Buffer<u64>>),
    D(Arc<Buffer<[u8; 16]>>),
}
fn make(pages: u8, elem: u8) -> Result<AnyBuf, String> {
    let size = pages as usize * 4096;
    let e = |x: rustradio::Error| format!("{x}");
    Ok(match elem % 4 {
        0 => AnyBuf::A(Arc::new(Buffer::new(size).map_err(e)?)),
        1 => AnyBuf::B(Arc::new(Buffer::new(size).map_err(e)?)),
        2 => AnyBuf::C(Arc::new(Buffer::new(size).map_err(e)?)),
        _ => AnyBuf::D(Arc::new(Buffer::new(size).map_err(e)?)),
    })
}
fn touch(b: &AnyBuf) {
    // write + read through the stream API so the pages are really used
    if let AnyBuf::A(b) = b {
        let mut w = b.clone().write_buf().unwrap();
        let n = w.len().min(100);
        w.slice()[..n].fill(7);
        w.produce(n, &[]);
        let (r, _) = b.clone().read_buf().unwrap();
        let k = r.len();
        r.consume(k);
    }
}

impl Prop for C18 {
    type Case = C18Case;
    fn id(&self) -> &'static str {
        "C18"
    }
    fn max_jobs(&self) -> usize {
        1 // the oracle reads process-wide /proc state
    }
    fn strategy(&self, tier: Tier) -> BoxedStrategy<C18Case> {
        prop_oneof![
            8 => history_strategy(tier.pick(120, 200) as usize),
            1 => (1u8..5, any::<u16>()).prop_map(|(pages, shift)| C18Case::Alias { pages, shift }),
            1 => (3u8..13, 20u16..300, any::<u32>(), any::<bool>(), any::<bool>()).prop_map(|(threads, rounds, seed, big, refuse)| C18Case::Churn { threads, rounds, seed, big, refuse }),
            1 => (elem_strategy(), 1usize..16, 12u32..60, prop::sample::select(&[0usize, 0, 0, 1, 2048, 4096][..]))
                .prop_map(|(elem, m, sh, off)| C18Case::Setup { elem, size: (m << sh) + off }),
        ]
        .boxed()
    }
    fn cases(&self, tier: Tier) -> u64 {
        tier.pick(300, 6_000)
    }
    fn fixed_cases(&self, _tier: Tier) -> Vec<C18Case> {
        let mut v = Vec::new();
        for elem in [
            ElemKind::U8, ElemKind::U16, ElemKind::U32, ElemKind::U64, ElemKind::B16, ElemKind::F32,
            ElemKind::C32, ElemKind::B3, ElemKind::B12, ElemKind::Zst,
        ] {
            for &size in GOOD_SIZES.iter().chain(BAD_SIZES.iter()).chain(HUGE_SIZES.iter()) {
                v.push(C18Case::Setup { elem, size });
            }
        }
        for big in 0..5u8 {
            for pages in 1..=12u8 {
                v.push(C18Case::SetupBig { big, pages });
            }
        }
        for pages in 1..=4u8 {
            for shift in [0u16, 1, 2, 4095, 4096, 32768, 65535] {
                v.push(C18Case::Alias { pages, shift });
            }
        }
        v
    }
    fn exhaustive_subdomains(&self) -> Vec<String> {
        vec![
            "set-up table: 10 element kinds (incl. 3- and 12-byte and zero-sized) x 26 sizes (5 page multiples, 6 invalid, 15 huge page multiples from 2^31 to 2^63-4096 where the kernel may refuse at ftruncate or mmap)".into(),
            "big elements: [u8; N] for N = 1, 2, 3, 4, 6 pages x 1-12 pages of buffer (dividing ones are used across the wrap, the others must be refused)".into(),
            "aliasing: every byte offset of 1-4 page buffers, write positions 0, 1, 2, cap/16, cap/2, cap-1".into(),
        ]
    }
    fn run(&self, case: &C18Case, ctx: &mut Ctx) {
        match case {
            C18Case::Setup { elem, size } => run_setup(*elem, *size, ctx),
            C18Case::SetupBig { big, pages } => run_setup_big(*big, *pages, ctx),
            C18Case::Churn { threads, rounds, seed, big, refuse } => run_churn(*threads, *rounds, *seed, *big, *refuse, ctx),
            C18Case::Alias { pages, shift } => run_alias(*pages, *shift, ctx),
            C18Case::History { threads, streams, use_them, unwind } => run_history(*threads, streams, *use_them, *unwind, ctx),
        }
    }
    fn rule(&self) -> String {
        "generated: create/drop histories of 1..200 stream buffers of 1-8 pages and 4 element types, created by the main thread and dropped (after optional use) by 1-8 threads in generated order, or released by stack unwinding when the worker panics while owning them; enumerated set-up table and aliasing table; concurrent churn in a child process (2-12 threads: holders keep pools of 1-8 page buffers with known content straddling the wrap and re-verify them, churners create/verify/drop buffers of up to 64 pages or of 2/4/6 MiB, and optionally every third thread keeps requesting sizes that must be refused; a crash of the child, a changed byte, broken aliasing or a leftover mapping is a violation); child-process fault campaigns (RLIMIT_AS lowered so that mmap fails after k buffers; map-count exhaustion with both parities so that the first or the second, MAP_FIXED, step fails). Oracle: after joining, the number of /proc/self/maps entries of deleted files and of /proc/self/fd entries equals the baseline taken at the start of the case; while a buffer lives its two halves are two adjacent mappings of one inode at offset 0, each `size` long, and every byte written through one half is read through the other; invalid configurations give Err from Buffer::new with no mapping left behind; injected mapping failures are Err (no panic/abort), repeated failures do not grow the mapping count, every buffer handed out under memory pressure has its advertised capacity and a full window that reads back intact, surviving and fresh streams still pass a wrap-forcing history. Non-trivial: >= 2 threads and >= 20 streams, or an injected failure occurred, or an enumerated table entry; distinct = hash of the case.".into()
    }
    fn assumptions(&self) -> Vec<String> {
        vec![
            "only mappings of deleted (unlinked temp) files and /proc/self/fd entries are counted, so allocator or thread-pool mappings cannot raise an alarm".into(),
            "the check runs single-threaded (process-wide /proc state)".into(),
            "fault injection = RLIMIT_AS, vm.max_map_count exhaustion and RLIMIT_NOFILE (no descriptor for the backing file) in a child process; other failure causes are not injected".into(),
        ]
    }
    fn extra(&self, tier: Tier, seed: u64, ev: &mut Extra) {
        // RLIMIT_AS campaign
        let headrooms: Vec<u64> = if tier == Tier::Quick { vec![64, 100, 300, 1000, 1500, 5000, 12000] } else { (0..40).map(|i| 16 + i * 211 + (seed % 97)).collect() };
        for h in headrooms {
            for size in [4096usize, 65536, 1 << 20, 8 << 20] {
                let args = vec!["child".to_string(), "rlimit".into(), h.to_string(), size.to_string(), "2000".into()];
                let (code, out) = run_child(&args, 60);
                ev.evaluations += 1;
                let v = parse_child(&out);
                let cj = json!({"child": args});
                match (code, v) {
                    (Some(0), Some(v)) => {
                        let injected = v["errs"].as_u64().unwrap_or(0) > 0;
                        let ok = v["growth_after_fail"].as_i64() == Some(0)
                            && v["maps_ok"].as_bool() == Some(true)
                            && v["data_ok"].as_bool() == Some(true)
                            && v["after_drop"] == v["base"]
                            && v["hist_ok"].as_bool() == Some(true);
                        if injected {
                            ev.nontrivial_hashes.insert(hash_json(&cj));
                            *ev.classes.entry("rlimit-injected-mmap-failure".into()).or_default() += 1;
                            if ev.samples.len() < 2 {
                                ev.samples.push(json!({"child_args": args, "result": v}));
                            }
                        }
                        if !ok {
                            ev.failures.push((
                                Failure { sig: "C18/fault/rlimit-accounting".into(), msg: format!("child {args:?} reported {v}") },
                                cj,
                            ));
                        }
                    }
                    (_, _) if out.contains("memory allocation of") => {
                        // the allocator, not a mapping, hit the limit: Rust aborts by design
                        ev.inconclusive += 1;
                        *ev.classes.entry("rlimit-heap-allocation-failed(inconclusive)".into()).or_default() += 1;
                    }
                    (code, _) => {
                        ev.failures.push((
                            Failure {
                                sig: "C18/fault/rlimit-child-died".into(),
                                msg: format!("child {args:?} ended with {code:?} (panic/abort on a mapping failure?) output: {}", out.chars().take(300).collect::<String>()),
                            },
                            cj,
                        ));
                    }
                }
            }
        }
        // no descriptor left for the backing file, or a backing file that cannot be made large
        // enough (file size limit below the buffer size)
        for (size, limit) in [(4096usize, None), (65536, None), (1 << 20, None), (65536, Some(4096u64)), (1 << 20, Some(65536)), (8192, Some(0))] {
            let mut args = vec!["child".to_string(), "nofile".into(), size.to_string()];
            if let Some(l) = limit {
                args.push(format!("fsize:{l}"));
            }
            let (code, out) = run_child(&args, 60);
            ev.evaluations += 1;
            let cj = json!({"child": args});
            match (code, parse_child(&out)) {
                (Some(0), Some(v)) => {
                    ev.nontrivial_hashes.insert(hash_json(&cj));
                    *ev.classes.entry(if limit.is_some() { "fsize-injected-failure" } else { "nofile-injected-failure" }.into()).or_default() += 1;
                    let ok = v["probe_ok"].as_bool() == Some(true) && v["data_ok"].as_bool() == Some(true) && v["after"] == v["base"];
                    if !ok {
                        ev.failures.push((
                            Failure { sig: if limit.is_some() { "C18/fault/fsize" } else { "C18/fault/nofile" }.into(), msg: format!("with {}, Buffer::new({size}) => set-up ok: {}, buffer whole: {}, mappings/fds {} -> {}", match limit { Some(l) => format!("a file size limit of {l} bytes"), None => "no descriptor available".to_string() }, v["setup_ok"], v["data_ok"], v["base"], v["after"]) },
                            cj,
                        ));
                    }
                }
                (code, _) => ev.failures.push((
                    Failure { sig: if limit.is_some() { "C18/fault/fsize-child-died" } else { "C18/fault/nofile-child-died" }.into(), msg: format!("child {args:?} ended with {code:?} (a buffer over a backing file that is too short dies on first access): {}", out.chars().take(300).collect::<String>()) },
                    cj,
                )),
            }
        }
        {
            for parity in 0..2 {
                let args = vec!["child".to_string(), "mapcount".into(), parity.to_string()];
                let (code, out) = run_child(&args, 300);
                ev.evaluations += 1;
                let cj = json!({"child": args});
                match (code, parse_child(&out)) {
                    (Some(0), Some(v)) => {
                        let injected = v["first_fail_at"].is_u64();
                        let ok = v["growth_after_fail"].as_i64() == Some(0)
                            && v["after_drop"] == v["base"]
                            && v["surv_ok"].as_bool() == Some(true)
                            && v["hist_ok"].as_bool() == Some(true);
                        if injected {
                            ev.nontrivial_hashes.insert(hash_json(&cj));
                            *ev.classes.entry("mapcount-injected-failure".into()).or_default() += 1;
                            ev.samples.push(json!({"child_args": args, "result": v}));
                        } else {
                            ev.inconclusive += 1;
                        }
                        if !ok {
                            ev.failures.push((
                                Failure { sig: "C18/fault/mapcount-accounting".into(), msg: format!("child {args:?} reported {v}") },
                                cj,
                            ));
                        }
                    }
                    (code, _) => {
                        ev.failures.push((
                            Failure {
                                sig: "C18/fault/mapcount-child-died".into(),
                                msg: format!("child {args:?} ended with {code:?}; output: {}", out.chars().take(300).collect::<String>()),
                            },
                            cj,
                        ));
                    }
                }
            }
        }
    }
}

fn try_new(elem: ElemKind, size: usize) -> Result<Result<(), String>, crate::engine::PanicInfo> {
    macro_rules! t {
        ($t:ty) => {
            catch(|| Buffer::<$t>::new(size).map(|_| ()).map_err(|e| format!("{e}")))
        };
    }
    match elem {
        ElemKind::U8 => t!(u8),
        ElemKind::U16 => t!(u16),
        ElemKind::U32 => t!(u32),
        ElemKind::U64 => t!(u64),
        ElemKind::B16 => t!([u8; 16]),
        ElemKind::F32 => t!(f32),
        ElemKind::C32 => t!(rustradio::Complex),
        ElemKind::B3 => t!([u8; 3]),
        ElemKind::B12 => t!([u8; 12]),
        ElemKind::Zst => t!(()),
    }
}

fn run_churn(threads: u8, rounds: u16, seed: u32, big: bool, refuse: bool, ctx: &mut Ctx) {
    ctx.class(if big { "churn/2MiB-multiples" } else { "churn/page-multiples" });
    if refuse {
        ctx.class("churn/with-refused-set-ups");
    }
    let args = vec!["child".to_string(), "churn".into(), threads.to_string(), rounds.to_string(), seed.to_string(), if big { "1" } else { "0" }.to_string(), if refuse { "1" } else { "0" }.to_string()];
    let (code, out) = run_child(&args, 120);
    match (code, parse_child(&out)) {
        (Some(0), Some(v)) => {
            if v["created"].as_u64().unwrap_or(0) >= 100 {
                ctx.nontrivial();
            }
            if v["ok"].as_bool() != Some(true) {
                let first = v["fails"].as_array().and_then(|a| a.first()).and_then(|x| x.as_str()).unwrap_or("").to_string();
                let kind = first.split(':').next().unwrap_or("leak").to_string();
                let kind = if first.is_empty() { "leak".to_string() } else { kind };
                ctx.fail(format!("C18/churn/{kind}"), format!("{threads} threads x {rounds} rounds: {first}; mappings/fds {} -> {}", v["base"], v["after"]));
            }
        }
        (_, _) if out.contains("memory allocation of") => ctx.skip("child ran out of heap (inconclusive)"),
        (code, _) => ctx.fail(
            "C18/churn/child-died".to_string(),
            format!("{threads} threads x {rounds} rounds (big={big}): child ended with {code:?} (None = killed by a signal): {}", out.chars().take(300).collect::<String>()),
        ),
    }
}

/// Elements of 1, 2, 3 (12 KiB), 4 and 6 pages.  A valid buffer is also used: fill, drain
/// all but one element, write across the wrap, read back.
fn run_setup_big(big: u8, pages: u8, ctx: &mut Ctx) {
    ctx.class("setup-big-elements");
    ctx.nontrivial();
    let size = pages.max(1) as usize * 4096;
    fn go<const N: usize>(size: usize) -> Result<Option<String>, String> {
        let b = Arc::new(Buffer::<[u8; N]>::new(size).map_err(|e| format!("{e}"))?);
        if size % N != 0 {
            return Ok(Some("accepted".to_string()));
        }
        let cap = size / N;
        let mk = |k: usize| {
            let mut e = [0u8; N];
            for (i, x) in e.iter_mut().enumerate() {
                *x = (k * 31 + i * 7 + (i >> 8)) as u8;
            }
            e
        };
        let mut next = 0usize;
        let mut expect = std::collections::VecDeque::new();
        // fill, then repeatedly read all but one and refill: every element slot is crossed
        for round in 0..(2 * cap + 3) {
            {
                let mut w = b.clone().write_buf().map_err(|e| format!("{e}"))?;
                let n = w.len();
                for i in 0..n {
                    w.slice()[i] = mk(next);
                    expect.push_back(next);
                    next += 1;
                }
                w.produce(n, &[]);
            }
            let (r, _) = b.clone().read_buf().map_err(|e| format!("{e}"))?;
            let have = r.len();
            if have != expect.len() {
                return Ok(Some(format!("round {round}: {have} elements readable, {} committed", expect.len())));
            }
            let take = if round % 2 == 0 { have.saturating_sub(1).max(1).min(have) } else { have };
            for i in 0..take {
                let want = mk(expect.pop_front().unwrap());
                if r.slice()[i] != want {
                    return Ok(Some(format!("round {round}: element {i} of the read window differs from what was committed")));
                }
            }
            r.consume(take);
        }
        Ok(None)
    }
    let n = [4096usize, 8192, 12288, 16384, 24576][(big % 5) as usize];
    let valid = size % n == 0;
    let base = (deleted_mappings(), open_fds());
    let r = catch(|| match big % 5 {
        0 => go::<4096>(size),
        1 => go::<8192>(size),
        2 => go::<12288>(size),
        3 => go::<16384>(size),
        _ => go::<24576>(size),
    });
    let after = (deleted_mappings(), open_fds());
    let what = format!("Buffer::<[u8; {n}]>::new({size})");
    match r {
        Err(pi) => ctx.fail(format!("C18/setup/panic/{}", crate::engine::loc_file(&pi.loc)), format!("{what}: panic at {}: {}", pi.loc, pi.msg)),
        Ok(Err(e)) if valid => ctx.fail("C18/setup/refused-valid".to_string(), format!("{what} failed: {e}")),
        Ok(Err(_)) => {}
        Ok(Ok(Some(m))) if m == "accepted" => ctx.fail(
            "C18/setup/accepted-invalid/nondividing".to_string(),
            format!("{what} succeeded although the element size does not divide the buffer size (it divides the doubled mapping: {})", (2 * size) % n == 0),
        ),
        Ok(Ok(Some(m))) => ctx.fail("C18/setup/big-element-data".to_string(), format!("{what}: {m}")),
        Ok(Ok(None)) => {}
    }
    if after != base {
        ctx.fail("C18/setup/leak".to_string(), format!("{what} (dropped again): deleted-file mappings {} -> {}, fds {} -> {}", base.0, after.0, base.1, after.1));
    }
}

fn run_setup(elem: ElemKind, size: usize, ctx: &mut Ctx) {
    ctx.class(if size > HUGE { "setup-huge" } else { "setup-table" });
    ctx.nontrivial();
    let esz = elem.size();
    let valid = size != 0 && size % 4096 == 0 && esz != 0 && size % esz == 0;
    // beyond 1 GiB the kernel decides; refusing is as good as succeeding
    let must_succeed = valid && size <= HUGE;
    let base = (deleted_mappings(), open_fds());
    let r = try_new(elem, size);
    let after = (deleted_mappings(), open_fds());
    match r {
        Err(pi) => ctx.fail(
            format!("C18/setup/panic/{}", crate::engine::loc_file(&pi.loc)),
            format!("Buffer::<{elem:?}>::new({size}) panicked at {}: {}", pi.loc, pi.msg),
        ),
        Ok(Ok(())) if !valid => ctx.fail(
            format!("C18/setup/accepted-invalid/{}", if esz == 0 { "zero-sized" } else if size % 4096 != 0 || size == 0 { "non-page-multiple" } else { "nondividing" }),
            format!("Buffer::<{elem:?}>::new({size}) succeeded although the configuration cannot work"),
        ),
        Ok(Err(e)) if must_succeed => ctx.fail("C18/setup/refused-valid".to_string(), format!("Buffer::<{elem:?}>::new({size}) failed: {e}")),
        _ => {}
    }
    if after != base {
        ctx.fail(
            "C18/setup/leak".to_string(),
            format!("Buffer::<{elem:?}>::new({size}) (dropped again): deleted-file mappings {} -> {}, fds {} -> {}", base.0, after.0, base.1, after.1),
        );
    }
}

fn run_alias(pages: u8, shift: u16, ctx: &mut Ctx) {
    ctx.class("alias-every-offset");
    ctx.nontrivial();
    let size = pages.max(1) as usize * 4096;
    let b = Arc::new(Buffer::<u8>::new(size).expect("valid buffer"));
    // the mapping layout
    let base = {
        let mut w = b.clone().write_buf().unwrap();
        w.slice().as_ptr() as usize
    };
    let ms = maps();
    let lo = ms.iter().find(|m| m.start <= base && base < m.end);
    let hi = ms.iter().find(|m| m.start <= base + size && base + size < m.end);
    match (lo, hi) {
        (Some(lo), Some(hi)) => {
            let ok = lo.start == base
                && lo.end == base + size
                && hi.start == base + size
                && hi.end == base + 2 * size
                && lo.inode == hi.inode
                && lo.inode != 0
                && lo.offset == 0
                && hi.offset == 0;
            if !ok {
                ctx.fail("C18/alias/mapping-layout".to_string(), format!("size {size}: first half {lo:?}, second half {hi:?}"));
                return;
            }
        }
        _ => {
            ctx.fail("C18/alias/mapping-layout".to_string(), format!("size {size}: halves not found in /proc/self/maps"));
            return;
        }
    }
    // move the write position, then fill the whole buffer: the window spans both halves
    let k = (shift as usize * size) >> 16;
    {
        let w = b.clone().write_buf().unwrap();
        w.produce(k, &[]);
        let (r, _) = b.clone().read_buf().unwrap();
        r.consume(k);
    }
    let pat = |i: usize| (i.wrapping_mul(2654435761) >> 7) as u8;
    {
        let mut w = b.clone().write_buf().unwrap();
        for (i, s) in w.slice().iter_mut().enumerate() {
            *s = pat(i);
        }
        w.produce(size, &[]);
    }
    // byte i and byte i+size are the same memory, for every i
    // SAFETY: [base, base + 2*size) is mapped for as long as `b` lives.
    let both = unsafe { std::slice::from_raw_parts(base as *const u8, 2 * size) };
    for i in 0..size {
        if both[i] != both[i + size] {
            ctx.fail("C18/alias/halves-differ".to_string(), format!("size {size}, write position {k}: byte {i} = {:#x}, byte {} = {:#x}", both[i], i + size, both[i + size]));
            return;
        }
        let want = pat((i + size - k) % size);
        if both[i] != want {
            ctx.fail("C18/alias/content".to_string(), format!("size {size}, write position {k}: byte {i} is {:#x}, written {want:#x}", both[i]));
            return;
        }
    }
    // and the reader sees the pattern in order through the window that crosses the halves
    let (r, _) = b.clone().read_buf().unwrap();
    if r.len() != size || r.slice().iter().enumerate().any(|(i, x)| *x != pat(i)) {
        ctx.fail("C18/alias/read-window".to_string(), format!("size {size}, write position {k}: read window does not show the written pattern"));
    }
}

fn run_history(threads: u8, streams: &[(u8, u8, u8)], use_them: bool, unwind: bool, ctx: &mut Ctx) {
    if unwind {
        ctx.class("history/dropped-by-unwinding");
    }
    let threads = threads.max(1) as usize;
    ctx.class(format!("threads={threads}"));
    let base = (deleted_mappings(), open_fds());
    let mut shares: Vec<Vec<AnyBuf>> = (0..threads).map(|_| Vec::new()).collect();
    let mut created = 0usize;
    for (pages, elem, owner) in streams {
        match make(*pages, *elem) {
            Ok(b) => {
                created += 1;
                shares[*owner as usize % threads].push(b);
            }
            Err(e) => {
                ctx.fail("C18/history/create-failed".to_string(), format!("Buffer::new({} pages) failed: {e}", pages));
                return;
            }
        }
    }
    let mid = deleted_mappings();
    if mid != base.0 + 2 * created {
        ctx.fail(
            "C18/history/mappings-per-stream".to_string(),
            format!("{created} live buffers but {} deleted-file mappings (baseline {}): expected two per buffer", mid, base.0),
        );
    }
    let streams_owned: Vec<(u8, u8)> = streams.iter().map(|s| (s.0, s.1)).collect();
    std::thread::scope(|s| {
        for (ti, share) in shares.into_iter().enumerate() {
            let streams_owned = &streams_owned;
            s.spawn(move || {
                // each worker also creates and drops streams of its own
                let mut own = Vec::new();
                for (pages, elem) in streams_owned.iter().skip(ti).step_by(threads.max(1) * 3) {
                    if let Ok(b) = make(*pages, *elem) {
                        own.push(b);
                    }
                }
                let mut share = share;
                if use_them {
                    for b in share.iter().chain(own.iter()) {
                        touch(b);
                    }
                }
                if unwind {
                    // the thread dies with its buffers: they are released by stack unwinding
                    let _ = crate::engine::catch(move || {
                        let _owned = (share, own);
                        panic!("worker gives up while owning stream buffers");
                    });
                    return;
                }
                // drop in an order different from creation
                while let Some(b) = if share.len() % 2 == 0 { share.pop() } else if share.is_empty() { None } else { Some(share.remove(0)) } {
                    drop(b);
                }
                drop(own);
            });
        }
    });
    let after = (deleted_mappings(), open_fds());
    if after != base {
        ctx.fail(
            "C18/history/leak".to_string(),
            format!("after creating and dropping {created}+ buffers on {threads} threads: deleted-file mappings {} -> {}, fds {} -> {}", base.0, after.0, base.1, after.1),
        );
    }
    if threads >= 2 && created >= 20 {
        ctx.nontrivial();
    }
}
