//! C08 — every block is a pure stream function: output independent of chunking.
use proptest::prelude::*;

use crate::catalog::*;
use crate::drip::*;
use crate::dripcase::*;
use crate::engine::{Ctx, Prop, Tier, loc_file};

pub struct C08;

pub fn describe_diff(a: &PortData, b: &PortData) -> String {
    match (a, b) {
        (PortData::Samples(x), PortData::Samples(y)) => {
            let i = x.iter().zip(y.iter()).position(|(p, q)| p != q);
            match i {
                Some(i) => format!("first difference at sample {i}: {:#x} vs {:#x} (lengths {} vs {})", x[i], y[i], x.len(), y.len()),
                None => format!("one is a strict prefix of the other: lengths {} vs {}", x.len(), y.len()),
            }
        }
        (PortData::Packets(x), PortData::Packets(y)) => {
            let i = x.iter().zip(y.iter()).position(|(p, q)| p != q);
            match i {
                Some(i) => format!("first differing packet #{i}: len {} vs {} (counts {} vs {})", x[i].len(), y[i].len(), x.len(), y.len()),
                None => format!("packet counts {} vs {}", x.len(), y.len()),
            }
        }
        _ => "port kinds differ".into(),
    }
}

impl Prop for C08 {
    type Case = DripCase;
    fn id(&self) -> &'static str {
        "C08"
    }
    fn strategy(&self, tier: Tier) -> BoxedStrategy<DripCase> {
        // one case in twelve is four times as long (and one in 240 sixty times: up to 1.2 million
        // samples): the one-shot twin then sees 50 000+ samples
        // in a single work() call (per-call caps, index widths), the drip twin never more than
        // a few pages
        (
            dripcase_strategy(
                spec_strategy(),
                tier.pick(20_000, 60_000) as u32,
                tier.pick(60, 150) as usize,
                prop_oneof![3 => Just(0u16), 1 => 16u16..200].boxed(),
            ),
            0u16..240,
        )
            .prop_map(|(mut c, long)| {
                if long % 12 == 0 {
                    for g in c.gens.iter_mut() {
                        g.len = g.len.saturating_mul(4);
                    }
                }
                if long == 7 {
                    // one case in 240: a window of up to a million samples in one call
                    for g in c.gens.iter_mut() {
                        g.len = g.len.saturating_mul(60).min(1_200_000);
                    }
                }
                c
            })
            .boxed()
    }
    fn cases(&self, tier: Tier) -> u64 {
        tier.pick(24_000, 400_000)
    }
    fn run(&self, case: &DripCase, ctx: &mut Ctx) {
        let name = case.spec.name();
        ctx.class(format!("block={name}"));
        let prep = prepare(case);
        let mut drip = build_drip(case, &prep);
        let dl = drive(&mut drip, &case.schedule, &drive_opts(case));
        let mut one = build_oneshot(case, &prep);
        let ol = drive_oneshot(&mut one);

        for (which, l) in [("drip", &dl), ("one-shot", &ol)] {
            if let Some(pi) = &l.panic {
                ctx.fail(
                    format!("C08/panic/{name}/{}", loc_file(&pi.loc)),
                    format!("{name}::work() panicked in the {which} run at {}: {}", pi.loc, pi.msg),
                );
            }
        }
        if dl.panic.is_some() || ol.panic.is_some() {
            return;
        }
        if dl.step_budget_hit || ol.step_budget_hit {
            ctx.skip("step budget hit (inconclusive)");
            return;
        }
        match (&dl.error, &ol.error) {
            (None, None) => {}
            (Some(a), Some(b)) if a == b => {
                ctx.class("both-runs-error");
            }
            (a, b) => {
                ctx.fail(
                    format!("C08/error-depends-on-chunking/{name}"),
                    format!("drip run error: {a:?}; one-shot run error: {b:?}"),
                );
                return;
            }
        }
        for (i, (a, b)) in dl.outs.iter().zip(ol.outs.iter()).enumerate() {
            if canon_port(&a.data) != canon_port(&b.data) {
                ctx.fail(
                    format!("C08/output-depends-on-chunking/{name}"),
                    format!("output port {i}, drip vs one-shot: {}", describe_diff(&a.data, &b.data)),
                );
            }
        }
        let f = &dl.flags;
        if f.call_with_output_full {
            ctx.class("call-with-output-full");
        }
        if f.wrapped {
            ctx.class("wrapped");
        }
        if f.call_both_short {
            ctx.class("call-with-input-and-output-short");
        }
        if (f.call_with_output_full || f.call_with_output_short) && f.call_with_input_short && f.wrapped {
            ctx.nontrivial();
        }
    }
    fn rule(&self) -> String {
        "generated: block kind (47 catalogue entries over the 26 anchored files) x parameters x deterministic input expansion (random/constant/alternating/ramp/sinusoid/float specials; bit streams are {0,1}) of 0..20k (thorough 60k) samples x stream sizes 1-4 pages for inputs and outputs separately x drip schedule (Feed{port,k} / Free{port,j} / Work / Burst) followed by a drain to quiescence. Oracle (metamorphic): accumulated output of the drip run is bit-identical to the one-shot twin (fresh block, 4 MB streams, largest pieces, output always free); no panic; same error if any. Non-trivial: some work() call saw output full or nearly full AND some call saw a short input window AND a stream wrapped; distinct = hash of the case.".into()
    }
    fn assumptions(&self) -> Vec<String> {
        vec![
            "stream capacity >= 2x the block's contiguous unit (FFT block, FIR look-ahead, text line)".into(),
            "bit-stream consumers get {0,1}; integer arithmetic blocks get non-overflowing values".into(),
            "both runs deliver the whole input and are drained to quiescence, so equality (not only the prefix relation) is required".into(),
            "samples are compared bit for bit except that all NaNs count as equal (payload and sign of a NaN result depend on operand order, which the compiler may change between a vectorised loop body and its scalar tail)".into(),
        ]
    }
}
