//! C02 — tags reach the reader exactly once, on their sample.
use proptest::prelude::*;

use crate::engine::{Ctx, Prop, Tier};
use crate::ring::*;

pub struct C02;

impl Prop for C02 {
    type Case = RingCase;
    fn id(&self) -> &'static str {
        "C02"
    }
    fn strategy(&self, tier: Tier) -> BoxedStrategy<RingCase> {
        // tag-dense histories on element sizes that divide the buffer
        ring_case_strategy(true, tier.pick(100, 200) as usize)
            .prop_map(|mut c| {
                if matches!(c.elem, ElemKind::B3 | ElemKind::B12) {
                    c.elem = ElemKind::U32;
                }
                c
            })
            .boxed()
    }
    fn cases(&self, tier: Tier) -> u64 {
        tier.pick(8_000, 200_000)
    }
    fn run(&self, case: &RingCase, ctx: &mut Ctx) {
        run_ring_case("C02", case, Focus::Tags, ctx);
    }
    fn rule(&self) -> String {
        "generated: same interpreter as C01 with 0..5 tags per commit (keys from a 3-letter alphabet, all four value variants) placed on the first/last sample of the commit, on the samples adjacent to the wrap point, or at a random offset; consumes of 0, 1, part, all. Oracle: after every op the tag list of read_buf() equals the model's (window-relative position, key, value, order by position then commit order, nothing extra). Non-trivial: a partial consume that leaves tagged samples behind, or tags on both sides of the wrap point in one window, or a zero consume with tags buffered; distinct = hash of the case.".into()
    }
    fn assumptions(&self) -> Vec<String> {
        vec![
            "tags obey the documented contract pos < n (tags beyond the commit are a producer bug)".into(),
            "Float tag values are finite (NaN != NaN would make equality meaningless)".into(),
        ]
    }
}
