//! C05 — multithreaded runner: terminates with the schedule-independent reference result.
use std::sync::{Arc, Mutex};

use proptest::prelude::*;
use rustradio::graph::GraphRunner;
use rustradio::mtgraph::MTGraph;
use serde::{Deserialize, Serialize};
use serde_json::json;

use crate::engine::{Ctx, Extra, Failure, Prop, Tier, hash_json, loc_file};
use crate::graphgen::*;
use crate::props::c06::diff_sinks;
use crate::sched::*;

pub struct C05;

#[derive(Clone, Debug, Serialize, Deserialize, PartialEq)]
pub struct C05Case {
    pub recipe: Recipe,
    pub decisions: Vec<u8>,
}

type Res = Arc<Mutex<Option<Result<Vec<Vec<u64>>, String>>>>;

fn run_mt(r: &Recipe, out: Res) {
    let size = r.pages.max(1) as usize * 4096;
    let b = build(r, Some(size));
    let n = b.blocks.len();
    let order = add_order(r, n);
    let sinks = b.sinks;
    let mut slots: Vec<Option<Box<dyn rustradio::block::Block + Send>>> = b.blocks.into_iter().map(Some).collect();
    let mut g = MTGraph::new();
    for i in &order {
        g.add(slots[*i].take().unwrap());
    }
    let res = g.run();
    let got: Vec<Vec<u64>> = sinks.iter().map(|s| s.contents()).collect();
    *out.lock().unwrap() = Some(match res {
        Ok(()) => Ok(got),
        Err(e) => Err(format!("{e}")),
    });
}

static ABANDONED: std::sync::atomic::AtomicUsize = std::sync::atomic::AtomicUsize::new(0);

impl Prop for C05 {
    type Case = C05Case;
    fn id(&self) -> &'static str {
        "C05"
    }
    fn strategy(&self, tier: Tier) -> BoxedStrategy<C05Case> {
        let general = (recipe_strategy(tier.pick(16_000, 30_000) as u32), decisions_strategy(tier.pick(400, 1500) as usize))
            .prop_map(|(recipe, decisions)| C05Case { recipe, decisions });
        // tiny end-of-stream graphs: short executions, dense coverage of their interleavings
        let tiny = (tiny_recipe_strategy(), decisions_strategy(120)).prop_map(|(recipe, decisions)| C05Case { recipe, decisions });
        prop_oneof![1 => general, 15 => tiny].boxed()
    }
    fn cases(&self, tier: Tier) -> u64 {
        tier.pick(20_000, 600_000)
    }
    fn run(&self, case: &C05Case, ctx: &mut Ctx) {
        let r = &case.recipe;
        let mut a = build(r, None);
        let want = match reference_run(&mut a) {
            Ok(w) => w,
            Err(e) => {
                ctx.skip(format!("reference executor: {e}"));
                return;
            }
        };
        drop(a);
        let out: Res = Arc::new(Mutex::new(None));
        let (r2, o2) = (r.clone(), out.clone());
        // step budget by graph size: tiny end-of-stream graphs finish within a few hundred
        // scheduling steps (a run that never ends is then recognised after 60 000 steps instead
        // of 3 million)
        // an execution that is cut off at the step bound or in a deadlock leaves its tasks (and
        // their stream mappings) behind: once a run has recorded a number of them, further cases
        // are skipped instead of piling up abandoned executions until memory runs out
        if ABANDONED.load(std::sync::atomic::Ordering::Relaxed) >= 200 {
            ctx.skip("enough abandoned (non-terminating / deadlocked) executions recorded in this run");
            return;
        }
        let tiny = !r.src_pieces.is_empty() && r.src_pieces.iter().map(|x| *x as u64).sum::<u64>() < 64;
        let budget: u64 = if tiny { 60_000 } else { 3_000_000 };
        let ex = explore(&case.decisions, budget as usize, move || run_mt(&r2, o2.clone()));
        let size = r.pages.max(1) as usize * 4096;
        if ex.step_bound_hit || ex.deadlock {
            ABANDONED.fetch_add(1, std::sync::atomic::Ordering::Relaxed);
        }
        if let Some(pi) = &ex.panic {
            if ex.step_bound_hit {
                if ex.fair_steps as u64 > budget / 2 {
                    ctx.fail(
                        "C05/no-termination-under-fair-schedule".to_string(),
                        format!("MTGraph::run() did not return within {} scheduling steps, {} of them under the fair continuation", ex.steps, ex.fair_steps),
                    );
                } else {
                    ctx.skip("step budget hit under an unfair prefix (inconclusive)");
                }
            } else if ex.deadlock {
                ctx.fail("C05/deadlock".to_string(), format!("no runnable task: {}", pi.msg));
            } else {
                ctx.fail(format!("C05/panic/{}", loc_file(&pi.loc)), format!("MTGraph::run() panicked at {}: {}", pi.loc, pi.msg));
            }
            return;
        }
        match out.lock().unwrap().take() {
            None => ctx.fail("C05/no-result".to_string(), "the execution ended without run() returning".to_string()),
            Some(Err(e)) => ctx.fail("C05/run-error".to_string(), format!("MTGraph::run() returned an error: {e}")),
            Some(Ok(got)) => {
                if let Some(d) = diff_sinks(&got, &want) {
                    let kind = if got.iter().zip(want.iter()).all(|(g, w)| g.len() <= w.len() && g[..] == w[..g.len()]) {
                        "lost-tail-data"
                    } else {
                        "wrong-data"
                    };
                    ctx.fail(
                        format!("C05/{kind}"),
                        format!("MTGraph::run() returned Ok; {d}; stream size {size}; {} steps, {} pre-emptions", ex.steps, ex.preemptions),
                    );
                }
            }
        }
        let big = want.iter().any(|w| w.len() > size / 4);
        if big && ex.preemptions >= 1 {
            ctx.class("data>capacity+preempted");
            ctx.nontrivial();
        }
        if !r.src_pieces.is_empty() {
            ctx.class("tiny-end-of-stream-graph");
            if ex.preemptions >= 2 {
                ctx.nontrivial();
            }
        }
    }
    fn rule(&self) -> String {
        "generated: graph recipe (as C06: chains, balanced tee/merge diamonds, two-source merges, rate changers, HDLC packet stage, 1-2 sinks) x source lengths 0..16k (thorough 30k) x stream sizes 1-4 pages x generated add order x scheduler decision stream. MTGraph::run() executes unmodified; its block threads are coroutines on the shuttle runtime through the verif shim (thread spawn/join/exit, locks, timed waits with generated timeout firing, stream-end drops are scheduling points). Oracle: run() returns Ok and every sink holds exactly the sequence of the sequential reference executor (4 MB streams, topological order); deadlock and non-termination under the fair continuation are violations, budget exhaustion under an unfair prefix is inconclusive. Thorough adds real-thread runs (std primitives, OS scheduling). A second family (15 of 16 cases) are tiny end-of-stream graphs: a source that delivers 1-4 pieces of 1-5 samples on its own clock (one case in six: a packet source whose 1-5 packets of up to 2000 samples go through VecToStream into a one-page stream, so that a packet has to wait for room after its writer has left), 0-2 stages biased to rate changers and blocks asking for more than one sample, one sink (50-200 scheduling steps, so the decision stream covers a useful part of the interleavings around the last commit and the writer's exit). Non-trivial: a sink result larger than the stream capacity and >= 1 pre-emption, or a tiny graph with >= 2 pre-emptions; distinct = hash of (recipe, decisions).".into()
    }
    fn assumptions(&self) -> Vec<String> {
        vec![
            "balanced diamonds only (see C06)".into(),
            "sequentially consistent interleavings at lock/unlock/yield granularity".into(),
            "liveness is bounded liveness: every timed wait returns after at most 3 yields".into(),
        ]
    }
    fn extra(&self, tier: Tier, seed: u64, ev: &mut Extra) {
        use proptest::strategy::{Strategy, ValueTree};
        // stock PCT scheduler (depth 1-3) over tiny end-of-stream graphs
        {
            let n = tier.pick(1_500, 60_000);
            let mut runner = crate::engine::make_runner(seed, 991);
            let strat = tiny_recipe_strategy();
            let mut fails = 0;
            for i in 0..n {
                let Ok(t) = strat.new_tree(&mut runner) else { continue };
                let r = t.current();
                let mut a = build(&r, None);
                let Ok(want) = reference_run(&mut a) else { continue };
                drop(a);
                let out: Res = Arc::new(Mutex::new(None));
                let (r2, o2) = (r.clone(), out.clone());
                let depth = 1 + (i % 3) as usize;
                let ex = explore_pct(seed.wrapping_mul(31).wrapping_add(i), depth, 200_000, move || run_mt(&r2, o2.clone()));
                ev.evaluations += 1;
                let cj = serde_json::to_value(&C05Case { recipe: r.clone(), decisions: vec![] }).unwrap();
                ev.nontrivial_hashes.insert(hash_json(&json!({"pct": i, "case": cj})));
                let msg = if ex.deadlock {
                    Some("deadlock under PCT".to_string())
                } else if ex.step_bound_hit {
                    ev.inconclusive += 1;
                    None
                } else if let Some(pi) = &ex.panic {
                    Some(format!("panic at {}: {}", pi.loc, pi.msg))
                } else {
                    match out.lock().unwrap().take() {
                        Some(Ok(got)) => diff_sinks(&got, &want),
                        Some(Err(e)) => Some(format!("run() returned an error: {e}")),
                        None => Some("run() did not return".to_string()),
                    }
                };
                if let Some(m) = msg {
                    fails += 1;
                    if fails <= 3 {
                        ev.failures.push((Failure { sig: "C05/pct/differs-from-reference".into(), msg: format!("PCT depth {depth}: {m}") }, cj));
                    }
                }
            }
            ev.notes.insert("pct_executions".into(), json!(n));
        }
        // real threads, real timeouts: a few graphs in parallel (each run costs 0.1-1 s of waits)
        let n = tier.pick(16, 96) as usize;
        let mut runner = crate::engine::make_runner(seed, 777);
        let strat = recipe_strategy(12_000);
        let recipes: Vec<Recipe> = (0..n).filter_map(|_| strat.new_tree(&mut runner).ok().map(|t| t.current())).collect();
        let results: Vec<(Recipe, Option<String>)> = std::thread::scope(|s| {
            let hs: Vec<_> = recipes
                .into_iter()
                .map(|r| {
                    s.spawn(move || {
                        let mut a = build(&r, None);
                        let want = match reference_run(&mut a) {
                            Ok(w) => w,
                            Err(_) => return (r, None),
                        };
                        drop(a);
                        let out: Res = Arc::new(Mutex::new(None));
                        let o2 = out.clone();
                        let r2 = r.clone();
                        let h = std::thread::spawn(move || run_mt(&r2, o2));
                        // watchdog: a real deadlock would hang forever
                        let t0 = std::time::Instant::now();
                        while !h.is_finished() && t0.elapsed().as_secs() < 120 {
                            std::thread::sleep(std::time::Duration::from_millis(20));
                        }
                        if !h.is_finished() {
                            return (r, Some("MTGraph::run() did not return within 120 s on real threads".to_string()));
                        }
                        let _ = h.join();
                        let res = out.lock().unwrap().take();
                        let msg = match res {
                            Some(Ok(got)) => diff_sinks(&got, &want),
                            Some(Err(e)) => Some(format!("run() returned an error: {e}")),
                            None => Some("run() panicked".to_string()),
                        };
                        (r, msg)
                    })
                })
                .collect();
            hs.into_iter().map(|h| h.join().unwrap()).collect()
        });
        for (r, msg) in results {
            ev.evaluations += 1;
            let cj = serde_json::to_value(&C05Case { recipe: r, decisions: vec![] }).unwrap();
            ev.nontrivial_hashes.insert(hash_json(&cj));
            if let Some(m) = msg {
                ev.failures.push((Failure { sig: "C05/real-threads".into(), msg: m }, cj));
            }
        }
        ev.notes.insert("real_thread_graphs".into(), json!(n));
    }
}
