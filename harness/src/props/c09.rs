//! C09 — block verdicts are truthful: no misdirected wait, idle spin or leaked window.
use proptest::prelude::*;
use serde::{Deserialize, Serialize};

use crate::catalog::*;
use crate::drip::*;
use crate::dripcase::*;
use crate::engine::{Ctx, Prop, Tier};

pub struct C09;

#[derive(Clone, Debug, Serialize, Deserialize, PartialEq)]
pub struct C09Case {
    pub drip: DripCase,
    /// probe wait verdicts by providing exactly what was asked
    pub probe: bool,
    /// drop the downstream ends after this many schedule steps
    pub close_outputs_at: Option<u8>,
}

impl Prop for C09 {
    type Case = C09Case;
    fn id(&self) -> &'static str {
        "C09"
    }
    fn strategy(&self, tier: Tier) -> BoxedStrategy<C09Case> {
        let spec = prop_oneof![10 => spec_strategy(), 2 => source_sink_strategy(), 1 => finite_source_strategy()].boxed();
        let plain = dripcase_strategy(
            spec,
            tier.pick(6_000, 20_000) as u32,
            tier.pick(60, 150) as usize,
            prop_oneof![4 => Just(0u16), 1 => 8u16..200].boxed(),
        );
        // the shape in which a block is retired with data still inside: more input than the
        // one-page output holds, the input's writer leaves as soon as everything is fed, and the
        // output is freed a few samples per round (so it is full whenever the block looks)
        let clogged = (
            dripcase_strategy(spec_strategy(), 2_500, 12, prop_oneof![4 => Just(0u16), 1 => 8u16..200].boxed()),
            prop_oneof![Just(crate::ring::Sz::One), Just(crate::ring::Sz::Two), (0u16..64).prop_map(crate::ring::Sz::Frac)],
        )
            .prop_map(|(mut c, free)| {
                c.close_early = true;
                c.out_pages = 1;
                c.drain_free = free;
                c.drain_feed = crate::ring::Sz::All;
                for g in c.gens.iter_mut() {
                    g.len = 1_100 + g.len % 1_400;
                }
                // overlap-save filters work in blocks of 2*nextpow2(ntaps) - ntaps samples: in
                // half of their cases the input ends exactly on a block boundary (nothing is
                // left in the stream when the last block has been taken in)
                if let BlockSpec::FftFilter { taps } | BlockSpec::FftFilterFloat { taps } = &c.spec {
                    let n = (taps.n as usize).max(1);
                    let mut p = 1usize;
                    while p < n {
                        p <<= 1;
                    }
                    let ns = (2 * p - n).max(1) as u32;
                    if c.gens[0].seed % 2 == 0 {
                        c.gens[0].len = c.gens[0].len.div_ceil(ns) * ns;
                    }
                }
                c
            });
        (
            prop_oneof![7 => plain, 1 => clogged],
            any::<bool>(),
            prop_oneof![5 => Just(None), 1 => (0u8..60).prop_map(Some)],
        )
            .prop_map(|(drip, probe, close_outputs_at)| C09Case { drip, probe, close_outputs_at })
            .boxed()
    }
    fn cases(&self, tier: Tier) -> u64 {
        tier.pick(20_000, 400_000)
    }
    fn run(&self, case: &C09Case, ctx: &mut Ctx) {
        let spec = &case.drip.spec;
        let name = spec.name();
        ctx.class(format!("block={name}"));
        {
            use BlockSpec::*;
            if matches!(spec, FileSourceU8 { len: 0, repeat: 255 } | FileSourceS24 { len: 0, repeat: 255 } | FileSourceF32 { len: 0, repeat: 255, .. } | SigMFSourceF32 { len: 0, repeat: 255, .. }) {
                ctx.skip("infinite repeat of an empty file (out of domain, as in C16)");
                return;
            }
        }
        let prep = prepare(&case.drip);
        let mut built = build_drip(&case.drip, &prep);
        let mut opts = drive_opts(&case.drip);
        opts.verdict_checks = true;
        opts.probe = case.probe;
        opts.close_outputs_at = case.close_outputs_at.map(|x| x as usize);
        let infinite = spec.is_infinite_source();
        if infinite {
            opts.max_calls = 400;
        }
        let log = drive(&mut built, &case.drip.schedule, &opts);

        // (a) a work() call must not over-consume / over-commit (the stream refuses by panicking)
        if let Some(pi) = &log.panic {
            if pi.msg.contains("trying to consume") || pi.msg.contains("tried to produce") || pi.msg.contains("can't produce that much") {
                ctx.fail(format!("C09/over-consume-or-commit/{name}"), format!("{name}::work(): {} at {}", pi.msg, pi.loc));
            } else {
                ctx.skip("run ended by a panic (reported by C08/C15)");
            }
            return;
        }
        for (kind, msg) in &log.findings {
            ctx.fail(format!("C09/{kind}/{name}"), format!("{name}: {msg}"));
        }
        if log.step_budget_hit && !infinite {
            ctx.skip("step budget hit (inconclusive)");
            return;
        }
        if log.error.is_some() {
            ctx.class("run-ended-with-error-value");
            return;
        }
        // (e) retirement: inputs ended and drained => EOF, or a wait on an ended stream, or eof()
        let has_inputs = !built.ins.is_empty();
        if has_inputs && log.calls_after_close > 0 && log.eof_at.is_none() {
            let named_closed = log.calls.iter().rev().take(3).any(|c| c.named.map(|n| n.2).unwrap_or(false));
            if !named_closed && !log.block_eof {
                let last = log.calls.last().map(|c| format!("{:?} named={:?}", c.verdict, c.named));
                ctx.fail(
                    format!("C09/no-retirement/{name}"),
                    format!("{name}: all inputs ended and were drained ({} calls later) but the block neither returned EOF nor waits on an ended stream nor reports eof(); last call: {last:?}", log.calls_after_close),
                );
            }
            ctx.class("retirement-checked");
        }
        // (g) a finite source whose output is kept drained finishes: it must not answer
        // 'call me again' (Again / Pending) for ever once everything is out
        if !has_inputs && !infinite && spec.is_finite_source() && !log.outputs_closed && log.eof_at.is_none() {
            let last = log.calls.last().map(|c| format!("{:?}", c.verdict));
            ctx.fail(
                format!("C09/never-finishes/{name}"),
                format!("{name} ({spec:?}): a finite source with its output drained went quiet without ever reporting EOF; last verdict {last:?}"),
            );
        }
        // (e') downstream gone: a source/transformer with a full, ended output must not keep asking to be called
        if log.outputs_closed {
            ctx.class("downstream-dropped");
        }
        if log.probes > 0 {
            ctx.class("wait-probed");
        }
        let f = &log.flags;
        if f.call_with_output_full {
            ctx.class("call-with-output-full");
        }
        if f.call_both_short {
            ctx.class("call-with-input-and-output-short");
        }
        if f.peer_gone_call {
            ctx.class("call-with-peer-gone");
        }
        if f.call_with_output_full || f.call_both_short || log.outputs_closed {
            ctx.nontrivial();
        }
    }
    fn rule(&self) -> String {
        "generated: every catalogue block plus sources/sinks (VectorSource, ConstantSource, SignalSource*, NullSink, VectorSink) under the C08 drip schedules (incl. stingy drain phases), optionally with the downstream ends dropped mid-run and with wait probing on. Per-call oracle on every work() call: (a) no over-consume/over-commit refusal; (b) every open stream of the block has exactly two handles after return; (c) a call without stream activity must not report a wait on a harness-owned stream that already satisfies the request - and a call that did move data and then reports such a wait must be followed by a call that makes progress -, and after the harness provides exactly what was asked on that stream alone the next call must make progress or ask for something else; (d) no 6 consecutive no-activity 'Again' answers with nothing changing; (e) once all inputs have ended and are drained the block returns EOF, or waits on an ended stream, or reports eof(); (f) conversely, after a verdict on which a runner retires the block - a wait on an ended input that holds less than what is asked for - no later call may produce output (in 30% of the cases the input writers leave as soon as everything is fed, while the block is still clogged; one case in eight is built for it: more input than the one-page output holds, early close, output freed a few samples per round); a wait verdict after which the block's eof() answers true retires it just the same; (g) a finite source (vector, file incl. files ending inside a sample and 24-bit samples, SigMF) whose output is kept drained reports EOF instead of answering Again/Pending for ever. Non-trivial: a call with output full, or input and output both short, or the downstream dropped mid-run; distinct = hash of the case.".into()
    }
    fn assumptions(&self) -> Vec<String> {
        vec![
            "stream activity = change of the buffered count on a harness-owned stream end; consumption after the harness dropped an input end is not observable".into(),
            "requests larger than the stream capacity are not probed (out of domain for the chosen sizes)".into(),
            "WaitForFunc verdicts are not executed (the single-threaded runner does not either)".into(),
        ]
    }
}
