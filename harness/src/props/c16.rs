//! C16 — finite sources emit their data exactly `repeat` times, then EOF.
use proptest::prelude::*;
use rustradio::Repeat;
use rustradio::stream::TagValue;
use serde::{Deserialize, Serialize};

use crate::catalog::*;
use crate::drip::*;
use crate::dripcase::*;
use crate::engine::{Ctx, Prop, Tier, catch, loc_file};

pub struct C16;

#[derive(Clone, Debug, Serialize, Deserialize, PartialEq)]
pub enum C16Case {
    Source(DripCase),
    /// Model-based call sequence on the Repeat API: start None = infinite; ops 0 again, 1 done, 2 count
    RepeatApi { start: Option<u64>, ops: Vec<u8> },
}

impl Prop for C16 {
    type Case = C16Case;
    fn id(&self) -> &'static str {
        "C16"
    }
    fn strategy(&self, tier: Tier) -> BoxedStrategy<C16Case> {
        let src = dripcase_strategy(finite_source_strategy(), 8, tier.pick(50, 120) as usize, Just(0u16).boxed()).prop_map(C16Case::Source);
        let api = (
            prop_oneof![Just(None), (0u64..5).prop_map(Some), Just(Some(u64::MAX))],
            prop::collection::vec(0u8..3, 0..13),
        )
            .prop_map(|(start, ops)| C16Case::RepeatApi { start, ops });
        prop_oneof![6 => src, 1 => api].boxed()
    }
    fn cases(&self, tier: Tier) -> u64 {
        tier.pick(8_000, 200_000)
    }
    fn run(&self, case: &C16Case, ctx: &mut Ctx) {
        match case {
            C16Case::RepeatApi { start, ops } => run_api(*start, ops, ctx),
            C16Case::Source(d) => run_source(d, ctx),
        }
    }
    fn rule(&self) -> String {
        "generated: VectorSource, FileSource<u8>, FileSource<f32>, SigMFSource<f32> (recording pair or tar archive) x data length 0..14k samples (several capacities of the 1-4 page output stream) x repeat in {0,1,2,3,infinite} x consumption schedules (Free/Work/Burst and stingy drain phases, so a repetition leaves in several pieces); plus model-based call sequences (length <= 12) on Repeat::{again,done,count} against a 3-line model. Oracle: output == data x repeat exactly; the run ends with EOF (within 3 idle calls of the last piece) and never before everything was emitted; infinite repeat of non-empty data never reports EOF within the explored calls and its output repeats the data; VectorSource marker tags: start and repeat=i exactly once per repetition on its first sample, first once on sample 0; no panic. Non-trivial: a repetition emitted in >= 2 pieces, or repeat >= 2 with data > capacity, or repeat == 0; distinct = hash of the case.".into()
    }
    fn assumptions(&self) -> Vec<String> {
        vec![
            "file sizes are a whole number of samples".into(),
            "an infinite repeat of empty data is outside the domain as far as the answer goes (EOF is the only non-spinning one); only 'every call returns' is asserted there, with a 10 s watchdog".into(),
            "work() is not called again after it returned EOF (no runner does)".into(),
        ]
    }
}

fn run_api(start: Option<u64>, ops: &[u8], ctx: &mut Ctx) {
    ctx.class("repeat-api-sequence");
    let mut r = match start {
        None => Repeat::infinite(),
        Some(n) => Repeat::finite(n),
    };
    let mut remaining = start;
    let mut count = 0u64;
    if ops.iter().filter(|o| **o == 0).count() as u64 > start.unwrap_or(u64::MAX) {
        ctx.nontrivial(); // again() called after exhaustion
    }
    for (i, op) in ops.iter().enumerate() {
        let res = catch(|| match op {
            0 => {
                let got = r.again();
                count += 1;
                let want = match remaining {
                    None => true,
                    Some(n) => {
                        remaining = Some(n.saturating_sub(1));
                        n > 1
                    }
                };
                (got as u64, want as u64, "again")
            }
            1 => (r.done() as u64, (remaining == Some(0)) as u64, "done"),
            _ => (r.count(), count, "count"),
        });
        match res {
            Err(pi) => {
                ctx.fail(
                    format!("C16/repeat-api/panic/{}", loc_file(&pi.loc)),
                    format!("Repeat started at {start:?}: call #{i} panicked at {}: {}", pi.loc, pi.msg),
                );
                return;
            }
            Ok((got, want, what)) => {
                if got != want {
                    ctx.fail(
                        format!("C16/repeat-api/{what}"),
                        format!("Repeat started at {start:?}, ops {ops:?}: call #{i} {what}() = {got}, model says {want}"),
                    );
                    return;
                }
            }
        }
    }
}

fn run_source(case: &DripCase, ctx: &mut Ctx) {
    use BlockSpec::*;
    let spec = &case.spec;
    let name = spec.name();
    ctx.class(format!("source={name}"));
    let (data, repeat): (Vec<u64>, u8) = match spec {
        VectorSourceU8 { len, repeat } | FileSourceU8 { len, repeat } => (vector_source_data(*len).iter().map(|b| *b as u64).collect(), *repeat),
        FileSourceS24 { len, repeat } => (s24_source_data(*len).iter().map(|x| *x as u32 as u64).collect(), *repeat),
        FileSourceF32 { len, repeat, .. } | SigMFSourceF32 { len, repeat, .. } => (f32_source_data(*len).iter().map(|x| x.to_bits() as u64).collect(), *repeat),
        _ => {
            ctx.skip("not a finite source");
            return;
        }
    };
    if repeat == 255 && data.is_empty() {
        // Nothing to repeat: what the block answers is outside the domain, but every call has
        // to come back (a work() that never returns cannot be cancelled by any runner).  The
        // calls run in a helper thread; ten seconds for twenty calls on an empty file is the
        // only wall-clock bound in this check, five orders of magnitude above the usual cost.
        static HUNG: std::sync::atomic::AtomicBool = std::sync::atomic::AtomicBool::new(false);
        if HUNG.load(std::sync::atomic::Ordering::SeqCst) {
            ctx.skip("a call on an empty source already failed to return in this run");
            return;
        }
        ctx.class("empty data, infinite repeat: calls must return");
        let c = case.clone();
        let (tx, rx) = std::sync::mpsc::channel();
        std::thread::spawn(move || {
            let prep = prepare(&c);
            let mut b = build_drip(&c, &prep);
            for _ in 0..20 {
                let blk = &mut b.block;
                let _ = catch(|| blk.work().map(|_| ()));
                for o in b.outs.iter_mut() {
                    o.drain(usize::MAX);
                }
            }
            let _ = tx.send(());
        });
        if rx.recv_timeout(std::time::Duration::from_secs(10)).is_err() {
            HUNG.store(true, std::sync::atomic::Ordering::SeqCst);
            ctx.fail(
                format!("C16/work-never-returns/{name}"),
                format!("{name} ({spec:?}): twenty work() calls on an empty source with infinite repeat did not come back within 10 s"),
            );
        }
        return;
    }
    ctx.class(format!("repeat={}", if repeat == 255 { "infinite".to_string() } else { repeat.to_string() }));
    let prep = prepare(case);
    let mut built = build_drip(case, &prep);
    let mut opts = drive_opts(case);
    opts.keep_calls = true;
    if repeat == 255 {
        opts.max_calls = 300;
    }
    let log = drive(&mut built, &case.schedule, &opts);
    if let Some(pi) = &log.panic {
        ctx.fail(
            format!("C16/panic/{name}/{}", loc_file(&pi.loc)),
            format!("{name} ({spec:?}) panicked at {}: {}", pi.loc, pi.msg),
        );
        return;
    }
    if let Some(e) = &log.error {
        ctx.fail(format!("C16/error/{name}"), format!("{name} ({spec:?}) returned an error: {e}"));
        return;
    }
    let PortData::Samples(got) = &log.outs[0].data else { return };
    let cap = built.outs[0].capacity();
    if repeat == 255 {
        if log.eof_at.is_some() {
            ctx.fail(format!("C16/eof-on-infinite-repeat/{name}"), format!("{name} reported EOF after {} samples with infinite repeat", got.len()));
        }
        if !got.iter().enumerate().all(|(i, x)| *x == data[i % data.len()]) {
            ctx.fail(format!("C16/content/{name}"), "infinite repeat: output is not the data repeated".to_string());
        }
        if got.len() > data.len() {
            ctx.nontrivial();
        }
    } else {
        let mut want = Vec::new();
        for _ in 0..repeat {
            want.extend(data.iter().copied());
        }
        if *got != want {
            ctx.fail(
                format!("C16/content/{name}"),
                format!("{name} ({spec:?}): emitted {} samples, data x repeat is {}; {}", got.len(), want.len(), crate::props::c08::describe_diff(&log.outs[0].data, &PortData::Samples(want.clone()))),
            );
            return;
        }
        if log.eof_at.is_none() {
            let last = log.calls.last().map(|c| format!("{:?}", c.verdict));
            ctx.fail(
                format!("C16/no-eof/{name}"),
                format!("{name} ({spec:?}): everything was emitted and drained but EOF was not reported within 3 further calls; last verdict {last:?}"),
            );
            return;
        }
        // pieces per repetition
        let pieces = log.calls.iter().filter(|c| c.produced.first().copied().unwrap_or(0) > 0).count();
        if repeat == 0 || (pieces as u64 > repeat as u64 && !data.is_empty()) || (repeat >= 2 && data.len() > cap) {
            ctx.nontrivial();
        }
    }
    // VectorSource marker tags
    if let VectorSourceU8 { .. } = spec {
        let mut want: Vec<(usize, String, TagValue)> = Vec::new();
        if !data.is_empty() {
            let reps = got.len().div_ceil(data.len());
            for r in 0..reps {
                let at = r * data.len();
                want.push((at, "VectorSource::start".into(), TagValue::Bool(true)));
                want.push((at, "VectorSource::repeat".into(), TagValue::U64(r as u64)));
                if r == 0 {
                    want.push((at, "VectorSource::first".into(), TagValue::Bool(true)));
                }
            }
        }
        if log.outs[0].tags != want {
            let g = &log.outs[0].tags;
            let i = g.iter().zip(want.iter()).position(|(a, b)| a != b).unwrap_or(g.len().min(want.len()));
            ctx.fail(
                "C16/marker-tags/VectorSource".to_string(),
                format!("{spec:?}: {} marker tags delivered, {} expected; first difference at #{i}: got {:?}, expected {:?}", g.len(), want.len(), g.get(i), want.get(i)),
            );
        }
    }
}
