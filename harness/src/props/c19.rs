//! C19 — derive-generated blocks behave as documented for any stream arity.
use proptest::prelude::*;
use rustradio::stream::TagValue;
use serde::{Deserialize, Serialize};

use crate::catalog::*;
use crate::derived::{DKEY, f0, f1, f2};
use crate::drip::*;
use crate::dripcase::*;
use crate::engine::{Ctx, Prop, Tier};

pub struct C19;

#[derive(Clone, Debug, Serialize, Deserialize, PartialEq)]
pub enum C19Case {
    Drip(DripCase),
    /// generated eof(): per input 0 open+empty, 1 open+data, 2 ended+empty, 3 ended+data
    Eof { kind: u8, states: [u8; 2], #[serde(default)] outs_dropped: bool },
}

fn u32s(d: &InputData) -> &[u32] {
    match d {
        InputData::U32(v) => v,
        _ => panic!("derived blocks take u32"),
    }
}

impl Prop for C19 {
    type Case = C19Case;
    fn id(&self) -> &'static str {
        "C19"
    }
    fn strategy(&self, tier: Tier) -> BoxedStrategy<C19Case> {
        (
            dripcase_strategy(
                derived_strategy(),
                tier.pick(8_000, 20_000) as u32,
                tier.pick(60, 150) as usize,
                prop_oneof![2 => Just(0u16), 2 => 1u16..40].boxed(),
            ),
            0u8..6,
        )
            .prop_map(|(mut c, big)| {
                if big == 0 {
                    // one case in six: 16-page streams on both sides and at least 5000 samples per
                    // input, delivered generously: single calls of more than 4096 steps
                    c.in_pages = 16;
                    c.out_pages = 16;
                    for g in c.gens.iter_mut() {
                        g.len = g.len.max(5000) + (g.seed % 3000);
                    }
                    c.drain_feed = crate::ring::Sz::All;
                    c.drain_free = crate::ring::Sz::All;
                }
                C19Case::Drip(c)
            })
            .boxed()
    }
    fn cases(&self, tier: Tier) -> u64 {
        tier.pick(12_000, 300_000)
    }
    fn fixed_cases(&self, _tier: Tier) -> Vec<C19Case> {
        let mut v = Vec::new();
        for kind in 0..DERIVED_KINDS {
            let n = derived_shape(kind).0;
            for outs_dropped in [false, true] {
                for s0 in 0..4u8 {
                    if n == 1 {
                        v.push(C19Case::Eof { kind, states: [s0, 0], outs_dropped });
                    } else {
                        for s1 in 0..4u8 {
                            v.push(C19Case::Eof { kind, states: [s0, s1], outs_dropped });
                        }
                    }
                }
            }
        }
        v
    }
    fn exhaustive_subdomains(&self) -> Vec<String> {
        vec![
            "generated eof(): all 4^n states {open,ended} x {empty,data} of the n inputs x {output read ends alive, all dropped}, for each of the 10 harness-defined derive blocks".into(),
            "arity: sync blocks with 3 inputs are not constructible (the macro's nested zip does not type-check), a compile-time refusal".into(),
        ]
    }
    fn run(&self, case: &C19Case, ctx: &mut Ctx) {
        match case {
            C19Case::Eof { kind, states, outs_dropped } => run_eof(*kind, *states, *outs_dropped, ctx),
            C19Case::Drip(d) => run_drip(d, ctx),
        }
    }
    fn rule(&self) -> String {
        "generated: 10 harness-defined blocks using #[derive(rustradio_macros::Block)] (sync 1->1, 1->2, 1->3, 2->1, 2->2, 2->3 with a distinct function per output; sync_tag 1->1 and 2->1; default+into fields (an `into` field declared before a plain field of an interchangeable type, so the constructor's argument order shows in the output); a non-sync block with generated new() over a copy and a non-copy output) under C08-style drip schedules with unequal input lengths and unequal free space per output (one case in six on 16-page streams with 5000+ samples per input, so that single calls take more than 4096 steps). Oracle per work() call: steps = min(shortest input, smallest output space); every input loses exactly `steps`, every output gains exactly `steps`, the per-sample function runs exactly `steps` times, verdict Again; with steps = 0 nothing moves and the verdict names an empty input or a full output. Final outputs equal the per-port functions (so read ends come back in declaration order), tags follow the first input plus the block's own (the 2->1 sync_tag block also forwards the tags of its second input under its own key). eof() is enumerated over all input states, with the output read ends alive and dropped. Non-trivial: some call saw unequal inputs or unequal output space; distinct = hash of the case.".into()
    }
    fn assumptions(&self) -> Vec<String> {
        vec!["calls made after the harness dropped a stream end are not judged (buffered counts are unobservable then)".into()]
    }
}

fn run_eof(kind: u8, states: [u8; 2], outs_dropped: bool, ctx: &mut Ctx) {
    let spec = BlockSpec::Derived { kind, k: 1 };
    let name = spec.name();
    ctx.class("eof-state-enumeration");
    ctx.nontrivial();
    let n = derived_shape(kind).0;
    let inputs: Vec<InputData> = (0..n).map(|i| InputData::U32(if states[i] & 1 == 1 { vec![7] } else { vec![] })).collect();
    let mut b = spec.build(inputs, vec![], Some(4096), Some(4096));
    for i in 0..n {
        b.ins[i].feed(usize::MAX);
        if states[i] & 2 != 0 {
            b.ins[i].close();
        }
    }
    if outs_dropped {
        // the read ends of all outputs are gone: no concern of end-of-*input* detection
        b.outs.clear();
    }
    let want = (0..n).all(|i| states[i] == 2);
    let got = b.block.eof();
    if got != want {
        ctx.fail(
            format!("C19/eof/{name}"),
            format!("{name}.eof() = {got} with input states {:?} (0 open+empty, 1 open+data, 2 ended+empty, 3 ended+data), output read ends dropped: {outs_dropped}; expected {want}", &states[..n]),
        );
    }
}

fn run_drip(case: &DripCase, ctx: &mut Ctx) {
    let BlockSpec::Derived { kind, k } = case.spec else {
        ctx.skip("not a derived block");
        return;
    };
    let kind = kind % DERIVED_KINDS;
    let name = case.spec.name();
    ctx.class(format!("block={name}"));
    let prep = prepare(case);
    let mut built = build_drip(case, &prep);
    let mut opts = drive_opts(case);
    opts.keep_calls = true;
    let log = drive(&mut built, &case.schedule, &opts);
    if let Some(pi) = &log.panic {
        ctx.fail(format!("C19/panic/{name}"), format!("{name}::work() panicked at {}: {}", pi.loc, pi.msg));
        return;
    }
    if let Some(e) = &log.error {
        ctx.fail(format!("C19/error/{name}"), format!("{name}::work() returned an error: {e}"));
        return;
    }
    if log.step_budget_hit {
        ctx.skip("step budget hit (inconclusive)");
        return;
    }
    let in_ids: Vec<usize> = built.ins.iter().map(|p| p.id()).collect();
    let out_ids: Vec<usize> = built.outs.iter().map(|p| p.id()).collect();
    let nsample_outs = if kind == 9 { 1 } else { built.outs.len() };

    // per-call oracle (sync kinds only)
    if kind != 9 {
        for (ci, c) in log.calls.iter().enumerate() {
            if c.in_closed.iter().any(|x| *x) || c.out_closed.iter().any(|x| *x) {
                continue;
            }
            let min_in = *c.in_buffered_before.iter().min().unwrap();
            let min_out = *c.out_free_before.iter().min().unwrap();
            let steps = min_in.min(min_out);
            let uneven_in = c.in_buffered_before.iter().any(|x| *x != c.in_buffered_before[0]);
            let uneven_out = c.out_free_before.iter().any(|x| *x != c.out_free_before[0]);
            if uneven_in || uneven_out {
                ctx.class("call-with-unequal-inputs-or-output-space");
                ctx.nontrivial();
            }
            if steps == 0 {
                let mut ok = !c.activity() && c.verdict == Verdict::WaitStream;
                if let Some((id, _need, _)) = c.named {
                    let empties: Vec<usize> = c.in_buffered_before.iter().enumerate().filter(|(_, b)| **b == 0).map(|(i, _)| in_ids[i]).collect();
                    let fulls: Vec<usize> = c.out_free_before.iter().enumerate().filter(|(_, b)| **b == 0).map(|(i, _)| out_ids[i]).collect();
                    ok &= empties.contains(&id) || fulls.contains(&id);
                } else {
                    ok = false;
                }
                if !ok {
                    ctx.fail(
                        format!("C19/wait-target/{name}"),
                        format!("call #{ci}: inputs buffered {:?}, outputs free {:?}: expected a wait on an empty input or full output, got {:?} named={:?} consumed={:?} produced={:?}", c.in_buffered_before, c.out_free_before, c.verdict, c.named, c.consumed, c.produced),
                    );
                    return;
                }
            } else {
                if c.probe_delta != steps as u64 {
                    ctx.fail(
                        format!("C19/process-invocations/{name}"),
                        format!("call #{ci}: {steps} steps were taken but the per-sample function ran {} times", c.probe_delta),
                    );
                    return;
                }
                let ok = c.consumed.iter().all(|x| *x == steps) && c.produced.iter().all(|x| *x == steps) && c.verdict == Verdict::Again;
                if !ok {
                    ctx.fail(
                        format!("C19/step-count/{name}"),
                        format!("call #{ci}: inputs buffered {:?}, outputs free {:?} => {steps} steps expected on every stream; consumed {:?}, produced {:?}, verdict {:?}", c.in_buffered_before, c.out_free_before, c.consumed, c.produced, c.verdict),
                    );
                    return;
                }
            }
        }
    }

    // values: per-port function of the inputs => read ends come back in declaration order
    let a = u32s(&prep.inputs[0]);
    let b: Vec<u32> = if prep.inputs.len() > 1 { u32s(&prep.inputs[1]).to_vec() } else { vec![0; a.len()] };
    let n = a.len().min(b.len());
    let fs: [fn(u32, u32, u32) -> u32; 3] = [f0, f1, f2];
    for j in 0..nsample_outs {
        let want: Vec<u64> = (0..n)
            .map(|i| if kind == 8 { f0(a[i], (i as u32).wrapping_add(1), k).wrapping_add((k.wrapping_mul(3) ^ 0x55).wrapping_mul(5)) as u64 } else { fs[j](a[i], b[i], k) as u64 })
            .collect();
        if log.outs[j].data != PortData::Samples(want.clone()) {
            ctx.fail(
                format!("C19/values/{name}"),
                format!("output {j}: {}", crate::props::c08::describe_diff(&log.outs[j].data, &PortData::Samples(want))),
            );
            return;
        }
    }
    if kind == 9 {
        let want: Vec<Vec<u64>> = a.iter().filter(|s| **s % 5 == 0).map(|s| vec![*s as u64, k as u64]).collect();
        if log.outs[1].data != PortData::Packets(want) {
            ctx.fail(format!("C19/values/{name}"), "packet output of the non-copy port differs".to_string());
        }
        return;
    }
    // tags: first input's tags at the same index (+ the block's own in sync_tag mode), on every output
    let mut want: Vec<(usize, String, TagValue)> = Vec::new();
    let tagged = kind == 6 || kind == 7;
    let mut ti = 0;
    let it = &prep.tags[0];
    for i in 0..n {
        while ti < it.len() && it[ti].0 < i {
            ti += 1;
        }
        let mut tj = ti;
        while tj < it.len() && it[tj].0 == i {
            want.push(it[tj].clone());
            tj += 1;
        }
        if tagged && a[i] % 7 == 0 {
            want.push((i, DKEY.to_string(), TagValue::U64(a[i] as u64)));
        }
        if kind == 7 {
            // T21 forwards the second input's tags of this sample under its own key
            if let Some(bt) = prep.tags.get(1) {
                for t in bt.iter().filter(|t| t.0 == i) {
                    want.push((i, crate::derived::BKEY.to_string(), t.2.clone()));
                }
            }
        }
    }
    for j in 0..nsample_outs {
        if log.outs[j].tags != want {
            ctx.fail(
                format!("C19/tags/{name}"),
                format!("output {j}: {} tags delivered, {} expected", log.outs[j].tags.len(), want.len()),
            );
            return;
        }
    }
}
