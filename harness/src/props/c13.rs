//! C13 — HDLC deframer: every valid frame recovered, nothing invalid emitted.
use proptest::prelude::*;
use serde::{Deserialize, Serialize};

use crate::catalog::BlockSpec;
use crate::drip::*;
use crate::engine::{Ctx, Prop, Tier, loc_file};
use crate::gens::XRng;
use crate::refmodel::*;
use crate::ring::Sz;

pub struct C13;

#[derive(Clone, Debug, Serialize, Deserialize, PartialEq)]
pub struct FrameSpec {
    pub len: u16,
    /// 0 random, 1 0xFF run, 2 0x7E run, 3 0x3F run, 4 0xF8 run, 5 mixed stuffing-heavy
    pub pat: u8,
    pub seed: u32,
    /// flags after this frame (1 = shared with the next frame)
    pub sep_flags: u8,
    /// after those flags the line idles: this many one-bits (1-5: a too-short non-frame between
    /// flags; 7 and more: abort / mark idle), followed by one more flag.  6 is not used (it
    /// would be a flag sharing both its zeroes with its neighbours).
    #[serde(default)]
    pub idle_ones: u8,
}
impl FrameSpec {
    pub fn payload(&self) -> Vec<u8> {
        let mut r = XRng::new(self.seed as u64 ^ 0x4d1c);
        (0..self.len)
            .map(|_| match self.pat % 6 {
                0 => r.next() as u8,
                1 => 0xff,
                2 => 0x7e,
                3 => 0x3f,
                4 => 0xf8,
                _ => [0xff, 0x7e, 0x3f, 0xf8, 0x1f, 0xfc, 0x00][r.below(7) as usize],
            })
            .collect()
    }
}

#[derive(Clone, Debug, Serialize, Deserialize, PartialEq)]
pub enum Mode {
    Clean,
    /// flip these bit positions (fraction/65536 of the transmission length)
    Flip(Vec<u16>),
    /// exact bit positions (used by the exhaustive single-flip enumeration)
    FlipAt(Vec<u32>),
    /// raw noise instead of a transmission
    Noise { len: u16, seed: u32 },
}

#[derive(Clone, Debug, Serialize, Deserialize, PartialEq)]
pub struct C13Case {
    pub frames: Vec<FrameSpec>,
    pub noise_len: u16,
    pub noise_seed: u32,
    pub lead_flags: u8,
    /// a quiet line before the opening flags: this many zero bits after the noise
    #[serde(default)]
    pub quiet: u8,
    pub min: u16,
    pub max: u16,
    pub checksum: bool,
    pub fix: bool,
    pub mode: Mode,
    pub in_pages: u8,
    pub schedule: Vec<Step>,
    pub drain_feed: Sz,
}

fn frame_strategy(maxlen: u16) -> impl Strategy<Value = FrameSpec> {
    (
        prop_oneof![0u16..6, 0u16..=maxlen.saturating_add(2), (maxlen.saturating_sub(2))..=maxlen.saturating_add(2)],
        0u8..6,
        any::<u32>(),
        prop_oneof![3 => Just(1u8), 2 => 2u8..4],
        prop_oneof![6 => Just(0u8), 1 => 1u8..6, 2 => 7u8..21, 1 => 7u8..61],
    )
        .prop_map(|(len, pat, seed, sep_flags, idle_ones)| FrameSpec { len, pat, seed, sep_flags, idle_ones })
}

fn case_strategy(max_sched: usize) -> BoxedStrategy<C13Case> {
    // one case in 25 with the size limit of the documented receive chains' order of magnitude (1500)
    (prop_oneof![8 => 2u16..8, 8 => 2u16..45, 8 => 10u16..400, 1 => 515u16..1600], prop_oneof![0u16..4, 0u16..12])
        .prop_flat_map(move |(max, min)| {
            // payload lengths up to max (the bound applies to payload + 2 FCS bytes)
            let mode = prop_oneof![
                5 => Just(Mode::Clean),
                3 => prop::collection::vec(any::<u16>(), 1..3).prop_map(Mode::Flip),
                2 => (0u16..3000, any::<u32>()).prop_map(|(len, seed)| Mode::Noise { len, seed }),
            ];
            (
                prop::collection::vec(frame_strategy(max), 1..9),
                prop_oneof![Just(0u16), 0u16..200],
                any::<u32>(),
                (1u8..7, prop_oneof![3 => Just(0u8), 1 => 1u8..8, 2 => 8u8..60]),
                Just(min),
                Just(max),
                any::<bool>(),
                any::<bool>(),
                mode,
                // one case in six: a 16-page stream and a long transmission, so that one work()
                // call can see tens of thousands of bits at once
                prop_oneof![5 => 1u8..3, 1 => Just(16u8)],
                schedule_strategy(max_sched),
                crate::dripcase::drain_sz(),
            )
        })
        .prop_map(|(frames, noise_len, noise_seed, (lead_flags, quiet), min, max, checksum, fix, mode, in_pages, schedule, drain_feed)| C13Case {
            frames: if in_pages >= 16 {
                // the same frame shapes five times over, with other contents
                (0..5u32).flat_map(|r| frames.iter().map(move |f| FrameSpec { seed: f.seed.wrapping_add(r.wrapping_mul(0x9E37)), ..f.clone() })).collect()
            } else {
                frames
            },
            noise_len,
            noise_seed,
            lead_flags,
            quiet,
            min,
            max,
            checksum,
            fix,
            mode,
            in_pages,
            schedule,
            drain_feed: if in_pages >= 16 { Sz::All } else { drain_feed },
        })
        .boxed()
}

/// Random bits without six consecutive ones (no flag, no abort can occur inside).
fn flag_free_noise(len: usize, seed: u32) -> Vec<u8> {
    let mut r = XRng::new(seed as u64 ^ 0x6e01);
    let mut ones = 0;
    (0..len)
        .map(|_| {
            let mut b = (r.next() & 1) as u8;
            if r.below(3) == 0 {
                b = 1; // bias towards long runs
            }
            if ones == 5 {
                b = 0;
            }
            if b == 1 {
                ones += 1;
            } else {
                ones = 0;
            }
            b
        })
        .collect()
}

pub struct Tx {
    pub bits: Vec<u8>,
    /// (start, end) bit range of each frame body (between its flags)
    pub bodies: Vec<(usize, usize)>,
    pub has_stuffing_next_to_flag: bool,
}

pub fn transmission(c: &C13Case) -> Tx {
    let mut bits = flag_free_noise(c.noise_len as usize, c.noise_seed);
    bits.extend(std::iter::repeat(0u8).take(c.quiet as usize));
    // a single opening flag is a valid start of a transmission
    for _ in 0..c.lead_flags.max(1) {
        bits.extend(FLAG_BITS);
    }
    let mut bodies = Vec::new();
    let mut adj = false;
    for f in &c.frames {
        let body = hdlc_stuffed_bits(&hdlc_with_fcs(&f.payload()));
        // a stuffed zero within the first or last 7 bits of the body
        let raw_len = (f.len as usize + 2) * 8;
        if body.len() > raw_len {
            let stuffed_early = hdlc_stuffed_bits(&hdlc_with_fcs(&f.payload())[..1.min(f.len as usize + 2)]).len() > 8;
            let tail = &body[body.len().saturating_sub(7)..];
            adj |= stuffed_early || tail.iter().filter(|b| **b == 1).count() >= 5;
        }
        let s = bits.len();
        bits.extend(body);
        bodies.push((s, bits.len()));
        for _ in 0..f.sep_flags.max(1) {
            bits.extend(FLAG_BITS);
        }
        if f.idle_ones > 0 {
            let k = if f.idle_ones == 6 { 7 } else { f.idle_ones };
            bits.extend(std::iter::repeat(1u8).take(k as usize));
            bits.extend(FLAG_BITS);
        }
    }
    Tx { bits, bodies, has_stuffing_next_to_flag: adj }
}

fn run_deframer(c: &C13Case, bits: &[u8], checksum: bool, fix: bool) -> Result<(Vec<Vec<u8>>, RunLog), crate::engine::PanicInfo> {
    let spec = BlockSpec::Hdlc { min: c.min, max: c.max, checksum, fix };
    let size = c.in_pages.max(1) as usize * 4096;
    let mut built = spec.build(vec![InputData::U8(bits.to_vec())], vec![], Some(size), None);
    let opts = DriveOpts { drain_feed: c.drain_feed, keep_calls: false, ..DriveOpts::default() };
    let log = drive(&mut built, &c.schedule, &opts);
    if let Some(pi) = &log.panic {
        return Err(pi.clone());
    }
    let pk = match &log.outs[0].data {
        PortData::Packets(p) => p.iter().map(|v| v.iter().map(|x| *x as u8).collect()).collect(),
        _ => Vec::new(),
    };
    Ok((pk, log))
}

fn verifies(raw: &[u8]) -> bool {
    raw.len() >= 2 && crc16_x25(&raw[..raw.len() - 2]).to_le_bytes() == raw[raw.len() - 2..]
}

/// Outputs the property allows for one raw frame when single-bit fixing is on.
fn allowed_with_fix(raw: &[u8]) -> (Vec<Vec<u8>>, bool) {
    // returns (allowed emissions, whether emitting nothing is allowed)
    if raw.len() < 2 {
        return (vec![], true);
    }
    let data = &raw[..raw.len() - 2];
    if verifies(raw) {
        return (vec![data.to_vec()], false);
    }
    let got = u16::from_le_bytes([raw[raw.len() - 2], raw[raw.len() - 1]]);
    let mut allowed = Vec::new();
    let mut d = data.to_vec();
    for i in 0..d.len() {
        for b in 0..8 {
            d[i] ^= 1 << b;
            if crc16_x25(&d) == got {
                allowed.push(d.clone());
            }
            d[i] ^= 1 << b;
        }
    }
    // a single flipped CRC bit: the data is intact
    let want = crc16_x25(data);
    if (want ^ got).count_ones() == 1 {
        allowed.push(data.to_vec());
    }
    (allowed, true)
}

impl Prop for C13 {
    type Case = C13Case;
    fn id(&self) -> &'static str {
        "C13"
    }
    fn strategy(&self, tier: Tier) -> BoxedStrategy<C13Case> {
        case_strategy(tier.pick(40, 100) as usize)
    }
    fn cases(&self, tier: Tier) -> u64 {
        tier.pick(12_000, 300_000)
    }
    fn fixed_cases(&self, tier: Tier) -> Vec<C13Case> {
        // every single-bit flip position of three base transmissions (frames <= 40 bytes)
        let mut v = Vec::new();
        let bases = [(9u16, 0u8, 11u32), (24, 5, 22), (40, 1, 33)];
        for (len, pat, seed) in bases {
            for (checksum, fix) in [(true, false), (true, true)] {
                let base = C13Case {
                    frames: vec![
                        FrameSpec { len, pat, seed, sep_flags: 1, idle_ones: 0 },
                        FrameSpec { len: 7, pat: 0, seed: seed + 1, sep_flags: 2, idle_ones: 0 },
                    ],
                    noise_len: 0,
                    noise_seed: 0,
                    lead_flags: 2,
                    quiet: 0,
                    min: 3,
                    max: 60,
                    checksum,
                    fix,
                    mode: Mode::Clean,
                    in_pages: 1,
                    schedule: vec![],
                    drain_feed: if tier == Tier::Quick { Sz::All } else { Sz::Frac(900) },
                };
                let n = transmission(&base).bits.len();
                for p in 0..n {
                    v.push(C13Case { mode: Mode::FlipAt(vec![p as u32]), ..base.clone() });
                }
            }
        }
        // the largest windows a stream can hand to one work() call: about 400 000 and 1 000 000
        // bits of back-to-back frames delivered at once through a 255-page stream
        for (nframes, seed) in [(500u32, 7u32), (1250, 8)] {
            v.push(C13Case {
                frames: (0..nframes).map(|i| FrameSpec { len: 60 + (i % 70) as u16, pat: (i % 6) as u8, seed: seed * 100_000 + i, sep_flags: 1 + (i % 2) as u8, idle_ones: 0 }).collect(),
                noise_len: 0,
                noise_seed: 0,
                lead_flags: 3,
                quiet: 0,
                min: 3,
                max: 200,
                checksum: true,
                fix: false,
                mode: Mode::Clean,
                in_pages: 255,
                schedule: vec![],
                drain_feed: Sz::All,
            });
        }
        v
    }
    fn exhaustive_subdomains(&self) -> Vec<String> {
        vec!["every single-bit flip position of three two-frame transmissions (first frame 9/24/40 payload bytes, shared flag), checksum on, with and without single-bit fixing".into(), "largest single work() windows: 500 and 1250 back-to-back frames (0.4 and 1.0 million bits) through a 255-page stream in one piece".into()]
    }
    fn run(&self, c: &C13Case, ctx: &mut Ctx) {
        // the arguments of the library's log statements are evaluated too (the default no-op
        // logger discards the records): a log statement must not change what a block does
        log::set_max_level(log::LevelFilter::Trace);
        let tx = transmission(c);
        let mut bits = tx.bits.clone();
        let clean = matches!(c.mode, Mode::Clean);
        match &c.mode {
            Mode::Clean => ctx.class("mode=clean"),
            Mode::Flip(fr) => {
                ctx.class("mode=bit-flips");
                for f in fr {
                    if !bits.is_empty() {
                        let p = (*f as usize * bits.len()) >> 16;
                        bits[p] ^= 1;
                    }
                }
            }
            Mode::FlipAt(ps) => {
                ctx.class("mode=single-flip-enumeration");
                for p in ps {
                    if (*p as usize) < bits.len() {
                        bits[*p as usize] ^= 1;
                    }
                }
            }
            Mode::Noise { len, seed } => {
                ctx.class("mode=noise");
                let mut r = XRng::new(*seed as u64);
                bits = (0..*len).map(|_| if r.below(5) == 0 { 0 } else { 1 } as u8 & (r.next() as u8 | 1)).collect();
                // mostly ones with zeros sprinkled: flags and stuffing patterns are frequent
                for b in bits.iter_mut() {
                    if r.below(6) == 0 {
                        *b = 0;
                    }
                }
            }
        }
        let fail_panic = |ctx: &mut Ctx, pi: &crate::engine::PanicInfo| {
            ctx.fail(
                format!("C13/panic/{}", loc_file(&pi.loc)),
                format!("HdlcDeframer(min {}, max {}, checksum {}, fix {}) panicked at {}: {}", c.min, c.max, c.checksum, c.fix, pi.loc, pi.msg),
            );
        };
        // raw frames (checksum off) and verified frames (checksum on, optional fixing)
        let raw = match run_deframer(c, &bits, false, false) {
            Ok(x) => x,
            Err(pi) => return fail_panic(ctx, &pi),
        };
        let ver = match run_deframer(c, &bits, true, c.fix) {
            Ok(x) => x,
            Err(pi) => return fail_panic(ctx, &pi),
        };
        if raw.1.step_budget_hit || ver.1.step_budget_hit {
            ctx.skip("step budget hit (inconclusive)");
            return;
        }
        if std::env::var_os("VERIF_DEBUG").is_some() {
            eprintln!("bits={:?}\nraw={:?}\nver={:?}", bits, raw.0, ver.0);
        }
        // adjacent flags are not a frame: zero-length raw "frames" are ignored
        let raw_frames: Vec<&Vec<u8>> = raw.0.iter().filter(|r| !r.is_empty()).collect();

        // (i)+(iii) clean transmission: exactly the in-bounds payloads, once, in order
        if clean {
            let mut want_raw: Vec<Vec<u8>> = Vec::new();
            let mut boundary = false;
            for f in &c.frames {
                let r = hdlc_with_fcs(&f.payload());
                let l = r.len();
                if l >= c.min as usize && l <= c.max as usize {
                    want_raw.push(r);
                }
                if l + 1 >= c.min as usize && l <= c.min as usize + 1 || l + 1 >= c.max as usize && l <= c.max as usize + 1 {
                    boundary = true;
                }
            }
            let got_raw: Vec<Vec<u8>> = raw_frames.iter().map(|r| (*r).clone()).collect();
            if got_raw != want_raw {
                ctx.fail(
                    "C13/clean-roundtrip/raw-frames".to_string(),
                    format!(
                        "min {} max {}: transmitted raw frame lengths {:?}, in-bounds {:?}, deframer (checksum off) delivered lengths {:?}",
                        c.min,
                        c.max,
                        c.frames.iter().map(|f| f.len + 2).collect::<Vec<_>>(),
                        want_raw.iter().map(|r| r.len()).collect::<Vec<_>>(),
                        got_raw.iter().map(|r| r.len()).collect::<Vec<_>>()
                    ),
                );
            }
            let want_payloads: Vec<Vec<u8>> = want_raw.iter().map(|r| r[..r.len() - 2].to_vec()).collect();
            if ver.0 != want_payloads {
                ctx.fail(
                    "C13/clean-roundtrip/payloads".to_string(),
                    format!(
                        "min {} max {} fix {}: expected payload lengths {:?}, deframer (checksum on) delivered lengths {:?}",
                        c.min,
                        c.max,
                        c.fix,
                        want_payloads.iter().map(|r| r.len()).collect::<Vec<_>>(),
                        ver.0.iter().map(|r| r.len()).collect::<Vec<_>>()
                    ),
                );
            }
            if boundary {
                ctx.class("size-boundary");
                ctx.nontrivial();
            }
            if tx.has_stuffing_next_to_flag && raw.1.ncalls > 3 {
                ctx.class("stuffing-next-to-flag+multi-call");
                ctx.nontrivial();
            }
        } else {
            ctx.nontrivial();
        }

        // (ii) for any bit stream: verified output is exactly determined by the raw frames
        if !c.fix {
            let want: Vec<Vec<u8>> = raw_frames.iter().filter(|r| verifies(r)).map(|r| r[..r.len() - 2].to_vec()).collect();
            if ver.0 != want {
                ctx.fail(
                    "C13/crc-filter".to_string(),
                    format!(
                        "checksum on delivered {} frames (lengths {:?}); of the {} raw frames {} verify CRC-16/X.25 (lengths {:?})",
                        ver.0.len(),
                        ver.0.iter().map(|r| r.len()).collect::<Vec<_>>(),
                        raw_frames.len(),
                        want.len(),
                        want.iter().map(|r| r.len()).collect::<Vec<_>>()
                    ),
                );
            }
        } else {
            // Each raw frame maps to one of its allowed emissions or (if it does not verify)
            // to nothing; the delivered list must be explainable that way, in order.
            // reach = set of positions in `ver.0` reachable after the frames seen so far.
            let nv = ver.0.len();
            let mut reach = vec![false; nv + 1];
            reach[0] = true;
            for r in &raw_frames {
                let (allowed, nothing_ok) = allowed_with_fix(r);
                let mut next = vec![false; nv + 1];
                for vi in 0..=nv {
                    if !reach[vi] {
                        continue;
                    }
                    if nothing_ok {
                        next[vi] = true;
                    }
                    if vi < nv && allowed.contains(&ver.0[vi]) {
                        next[vi + 1] = true;
                    }
                }
                reach = next;
            }
            if !reach[nv] {
                ctx.fail(
                    "C13/fix-bits/not-explained-by-raw-frames".to_string(),
                    format!(
                        "with single-bit fixing on, the delivered frames (lengths {:?}) cannot be obtained from the raw frames (lengths {:?}, verified: {:?}) by emitting each verified frame, optionally a single-bit repair of an unverified one, and nothing else",
                        ver.0.iter().map(|r| r.len()).collect::<Vec<_>>(),
                        raw_frames.iter().map(|r| r.len()).collect::<Vec<_>>(),
                        raw_frames.iter().map(|r| verifies(r)).collect::<Vec<_>>()
                    ),
                );
            }
        }
    }
    fn rule(&self) -> String {
        "generated: 1-8 frames (payload 0..max+2 bytes; random and stuffing-heavy 0xFF/0x7E/0x3F/0xF8 runs) framed by an independent HDLC framer (flags, LSB-first, bitwise CRC-16/X.25, stuffing) with shared or separate flags after a flag-free noise preamble, optionally a quiet line of 1-59 zero bits, and 1-6 opening flags; min_size 0..11, max_size 2..400 (one case in 25: 515..1600, frames of up to 1600 bytes), checksum on/off, fix-bits on/off; modes clean / 1-2 bit flips / raw noise; every single-flip position of three base transmissions enumerated; all delivered through generated drip schedules on 1-2 page streams. Oracle: clean => exactly the payloads whose raw length is within [min,max], once, in order (both with checksum off and on); any bit stream => frames delivered with checksum on == CRC-verified subset of the frames delivered with checksum off (E3 CRC); with fix-bits each raw frame maps to itself if verified, a single-bit repair, or nothing; never a panic. Non-trivial: corruption/noise case, or size-boundary frame, or a stuffed bit next to a flag with the frame straddling work() calls; distinct = hash of the case.".into()
    }
    fn assumptions(&self) -> Vec<String> {
        vec![
            "max_size is inclusive (as min_size is); both apply to the raw frame length incl. the 2 FCS bytes".into(),
            "two adjacent flags are not a frame: zero-length deliveries (possible only with min_size 0 and checksum off) are ignored".into(),
            "for corrupted input only the CRC relation is asserted, never 'subset of the transmitted payloads' (a fragment may verify by chance, 2^-16)".into(),
        ]
    }
}
