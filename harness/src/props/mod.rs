pub mod c01;
pub mod c02;
pub mod c08;
pub mod c12;
pub mod c09;
