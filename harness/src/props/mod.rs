pub mod c01;
pub mod c02;
pub mod c08;
pub mod c12;
pub mod c09;
pub mod c10;
pub mod c19;
pub mod c16;
