//! C11 — DSP kernels agree with their mathematical definitions and with each other.
use proptest::prelude::*;
use rustradio::Complex;
use rustradio::fir::Fir;
use rustradio::iir_filter::{ClampedFilter, Filter, IirFilter};
use serde::{Deserialize, Serialize};

use crate::catalog::*;
use crate::drip::*;
use crate::dripcase::*;
use crate::engine::{Ctx, Prop, Tier};
use crate::gens::*;

pub struct C11;

const EPS: f64 = f32::EPSILON as f64;

#[derive(Clone, Debug, Serialize, Deserialize, PartialEq)]
pub enum C11Case {
    /// FirFilter / FftFilter / FftFilterFloat / Hilbert / SinglePoleIir / QuadDemod / FastFM blocks under a drip schedule
    Block(DripCase),
    /// Fir::filter / filter_n / filter_float on the same data
    Kernel { taps: TapSpec, input: Gen, deci: u8 },
    /// IirFilter::filter / filter_clamped against the recurrence
    IirTaps { taps: Vec<i8>, input: Gen, clamp: Option<(i8, i8)> },
    /// tap designers
    LowPass { rate: u32, cutoff_pct: u8, twidth_pct: u8, window: u8 },
}

fn block_specs() -> BoxedStrategy<BlockSpec> {
    use BlockSpec::*;
    prop_oneof![
        3 => (tapspec_strategy(200), 1u8..9).prop_map(|(taps, deci)| FirF32 { taps, deci }),
        3 => (tapspec_strategy(120), 1u8..9).prop_map(|(taps, deci)| FirC32 { taps, deci }),
        3 => tapspec_strategy(200).prop_map(|taps| FftFilter { taps }),
        3 => tapspec_strategy(200).prop_map(|taps| FftFilterFloat { taps }),
        2 => (0u8..40, 0u8..4).prop_map(|(half, window)| Hilbert { half, window }),
        1 => (0u32..=1000).prop_map(|a| IirF32 { alpha: a as f32 / 1000.0 }),
        1 => (0u32..=1000).prop_map(|a| IirC32 { alpha: a as f32 / 1000.0 }),
        2 => (-80i32..80).prop_map(|g| QuadDemod { gain: g as f32 / 8.0 }),
        1 => Just(FastFm),
    ]
    .boxed()
}

fn finite_gen(max_len: u32) -> impl Strategy<Value = Gen> {
    // patterns 0..7 except 7 (specials): impulse-like, step, sinusoid, random
    gen_strategy(max_len).prop_map(|mut g| {
        if g.pat % 8 == 7 {
            g.pat = 6;
        }
        g
    })
}

fn f64s(v: &[f32]) -> Vec<f64> {
    v.iter().map(|x| *x as f64).collect()
}
fn from_bits_f(v: &[u64]) -> Vec<f32> {
    v.iter().map(|b| f32::from_bits(*b as u32)).collect()
}
fn from_bits_c(v: &[u64]) -> Vec<Complex> {
    v.iter().map(|b| Complex::new(f32::from_bits((*b >> 32) as u32), f32::from_bits(*b as u32))).collect()
}

/// y[k] = sum_j t[j] x[k-j], zero pre-history (complex, f64)
fn conv_c(t: &[Complex], x: &[Complex], k: usize) -> (f64, f64) {
    let mut re = 0f64;
    let mut im = 0f64;
    for (j, tj) in t.iter().enumerate() {
        if j > k {
            break;
        }
        let xv = x[k - j];
        re += tj.re as f64 * xv.re as f64 - tj.im as f64 * xv.im as f64;
        im += tj.re as f64 * xv.im as f64 + tj.im as f64 * xv.re as f64;
    }
    (re, im)
}

fn first_bad(got: &[(f64, f64)], want: &[(f64, f64)], tol: f64) -> Option<(usize, f64)> {
    got.iter().zip(want.iter()).enumerate().find_map(|(i, (g, w))| {
        let e = (g.0 - w.0).abs().max((g.1 - w.1).abs());
        if e > tol || e.is_nan() { Some((i, e)) } else { None }
    })
}

impl Prop for C11 {
    type Case = C11Case;
    fn id(&self) -> &'static str {
        "C11"
    }
    fn strategy(&self, tier: Tier) -> BoxedStrategy<C11Case> {
        let max_len = tier.pick(6_000, 20_000) as u32;
        let blocks = (
            block_specs(),
            [finite_gen(max_len), finite_gen(max_len), finite_gen(max_len)],
            1u8..5,
            1u8..5,
            schedule_strategy(tier.pick(40, 100) as usize),
            drain_sz(),
            drain_sz(),
            0u8..10,
        )
            .prop_map(|(spec, mut gens, mut in_pages, mut out_pages, schedule, mut drain_feed, mut drain_free, big)| {
                if big == 0 {
                    // one case in ten: 64-page streams and 36 000+ samples delivered generously, so
                    // that a single work() call produces well over 4096 outputs even when
                    // decimating by 8 (per-call batching inside a kernel)
                    in_pages = 64;
                    out_pages = 64;
                    for g in gens.iter_mut() {
                        g.len = 36_000 + g.len % 12_000;
                    }
                    drain_feed = crate::ring::Sz::All;
                    drain_free = crate::ring::Sz::All;
                }
                C11Case::Block(DripCase { spec, gens, tag_every: 0, in_pages, out_pages, schedule, drain_feed, drain_free, close_early: false, lopsided: false })
            });
        let kernel = (tapspec_strategy(200), finite_gen(2000), 1u8..9).prop_map(|(taps, input, deci)| C11Case::Kernel { taps, input, deci });
        let iir = (
            prop::collection::vec(-100i8..=100, 1..6),
            finite_gen(800),
            prop::option::of((-100i8..0, 0i8..100)),
        )
            .prop_map(|(taps, input, clamp)| C11Case::IirTaps { taps, input, clamp });
        let lp = (8_000u32..200_000, 1u8..45, 1u8..20, 0u8..4).prop_map(|(rate, cutoff_pct, twidth_pct, window)| C11Case::LowPass { rate, cutoff_pct, twidth_pct, window });
        prop_oneof![10 => blocks, 3 => kernel, 2 => iir, 1 => lp].boxed()
    }
    fn cases(&self, tier: Tier) -> u64 {
        tier.pick(6_000, 150_000)
    }
    fn fixed_cases(&self, _tier: Tier) -> Vec<C11Case> {
        // tap designers: the examples' own parameters, every window type
        let mut v = Vec::new();
        for window in 0..4u8 {
            for (rate, c, t) in [(50_000u32, 2u8, 1u8), (48_000, 25, 10), (8_000, 12, 2), (100_000, 12, 1)] {
                v.push(C11Case::LowPass { rate, cutoff_pct: c, twidth_pct: t, window });
            }
        }
        v
    }
    fn run(&self, case: &C11Case, ctx: &mut Ctx) {
        match case {
            C11Case::Block(d) => run_block(d, ctx),
            C11Case::Kernel { taps, input, deci } => run_kernel(taps, input, *deci as usize, ctx),
            C11Case::IirTaps { taps, input, clamp } => run_iir(taps, input, *clamp, ctx),
            C11Case::LowPass { rate, cutoff_pct, twidth_pct, window } => run_lowpass(*rate, *cutoff_pct, *twidth_pct, *window, ctx),
        }
    }
    fn rule(&self) -> String {
        format!(
            "generated: FirFilter<f32|Complex> (1-200 taps: random, windowed-sinc, impulse, moving average; decimation 1-8), FftFilter, FftFilterFloat, Hilbert, SinglePoleIirFilter, QuadratureDemod, FastFM under drip schedules (all chunkings), Fir::filter/filter_n/filter_float on identical data, IirFilter::filter/filter_clamped, low_pass/low_pass_complex x 4 window types; inputs random/impulse/step/sinusoid, finite, |x| <= 1e3, length 0..6k (thorough 20k) on 1-4 page streams, and in one case of ten 36-48k samples through 64-page streams delivered at once (single calls with well over 4096 outputs). Oracle: f64 reference computations of the defining formulas (FIR block output k = sum taps[j] x[k*deci+ntaps-1-j]; FFT filter y[k] = sum taps[j] x[k-j] with zero pre-history, hence FIR[k] == FFT[k+ntaps-1]; float variant = real part; IIR recurrences with a running rounding-error bound; QuadDemod = gain*arg(s*conj(prev)), with 0 or +-gain*pi where the product is exactly zero (gated inputs); FastFM's difference formula bit-exactly; Hilbert = (delayed input, FIR of the defining Hilbert taps - computed by the harness: window/n on odd offsets, antisymmetric, unit gain at fs/4 - which fir::hilbert() must also return); low_pass taps symmetric with unit DC gain). Stated tolerance, not tuned per case: |err| <= 64*eps32*sum|t|*max|x| for direct forms, <= 16*eps32*log2(fft_size)*sum|t|*max|x| + 1e-30 for FFT paths; exact output counts. Build variant: {} (the thorough tier also runs a build with -C target-feature=+avx,+sse3 so that the AVX dot product is the one under test). Non-trivial: >= 2 taps and input longer than one FFT block / FIR window with a chunk boundary inside (drip run with > 3 work calls); distinct = hash of the case.",
            variant()
        )
    }
    fn assumptions(&self) -> Vec<String> {
        vec![
            "inputs finite and bounded so that the norm-based tolerance is meaningful".into(),
            "feature builds fftw / fast-math / simd(portable_simd) are not exercised (no system FFTW; fast-math changes atan2 accuracy)".into(),
            "Hilbert and FIR/FFT use the library's own tap values as given; only low_pass output is checked for symmetry / DC gain".into(),
        ]
    }
}

pub fn variant() -> &'static str {
    if cfg!(all(target_feature = "avx", target_feature = "sse3")) { "avx" } else { "scalar" }
}

fn run_block(case: &DripCase, ctx: &mut Ctx) {
    use BlockSpec::*;
    let name = case.spec.name();
    ctx.class(format!("block={name}"));
    let mut prep = prepare(case);
    // finite and bounded inputs only (the norm-based tolerance needs it)
    let fix = |v: f32| if v.is_finite() && v.abs() <= 1.0e4 { v } else { 1.0f32.copysign(v) };
    for d in prep.inputs.iter_mut() {
        match d {
            InputData::F32(v) => v.iter_mut().for_each(|x| *x = fix(*x)),
            InputData::C32(v) => v.iter_mut().for_each(|x| *x = Complex::new(fix(x.re), fix(x.im))),
            _ => {}
        }
    }
    let mut b = build_drip(case, &prep);
    let log = drive(&mut b, &case.schedule, &drive_opts(case));
    if log.panic.is_some() || log.error.is_some() || log.step_budget_hit {
        ctx.skip("run ended by panic/error/budget (C08's business)");
        return;
    }
    let PortData::Samples(out) = &log.outs[0].data else { return };
    if log.ncalls > 3 {
        ctx.class("multi-call");
    }
    let fail = |ctx: &mut Ctx, what: &str, msg: String| ctx.fail(format!("C11/{name}/{what}"), format!("{:?}: {msg}", case.spec));
    match (&case.spec, &prep.inputs[0]) {
        (FirF32 { taps, deci }, InputData::F32(x)) => {
            let t = taps.taps();
            let d = *deci as usize;
            let nt = t.len();
            let want_n = if x.len() + 1 >= nt + d { (x.len() + 1 - nt) / d } else { 0 };
            let got = from_bits_f(out);
            if got.len() != want_n {
                return fail(ctx, "count", format!("{} outputs for {} inputs, {} taps, decimation {d}; definition gives {want_n}", got.len(), x.len(), nt));
            }
            let st: f64 = t.iter().map(|v| v.abs() as f64).sum();
            let mx = x.iter().map(|v| v.abs() as f64).fold(0.0, f64::max);
            let tol = 64.0 * EPS * st * mx + 1e-30;
            let xf = f64s(x);
            for (k, g) in got.iter().enumerate() {
                let mut w = 0f64;
                for j in 0..nt {
                    w += t[j] as f64 * xf[k * d + nt - 1 - j];
                }
                if (*g as f64 - w).abs() > tol {
                    return fail(ctx, "value", format!("output {k} = {g}, sliding dot product = {w} (tolerance {tol:e})"));
                }
            }
            if nt >= 2 && log.ncalls > 3 && x.len() > nt {
                ctx.nontrivial();
            }
        }
        (FirC32 { taps, deci }, InputData::C32(x)) => {
            let t = taps.ctaps();
            let d = *deci as usize;
            let nt = t.len();
            let want_n = if x.len() + 1 >= nt + d { (x.len() + 1 - nt) / d } else { 0 };
            let got = from_bits_c(out);
            if got.len() != want_n {
                return fail(ctx, "count", format!("{} outputs for {} inputs, {} taps, decimation {d}; definition gives {want_n}", got.len(), x.len(), nt));
            }
            let st: f64 = t.iter().map(|v| v.norm() as f64).sum();
            let mx = x.iter().map(|v| v.norm() as f64).fold(0.0, f64::max);
            let tol = 64.0 * EPS * st * mx * 2.0 + 1e-30;
            for (k, g) in got.iter().enumerate() {
                let (mut re, mut im) = (0f64, 0f64);
                for j in 0..nt {
                    let xv = x[k * d + nt - 1 - j];
                    re += t[j].re as f64 * xv.re as f64 - t[j].im as f64 * xv.im as f64;
                    im += t[j].re as f64 * xv.im as f64 + t[j].im as f64 * xv.re as f64;
                }
                if (g.re as f64 - re).abs() > tol || (g.im as f64 - im).abs() > tol {
                    return fail(ctx, "value", format!("output {k} = {g}, sliding dot product = ({re}, {im}) (tolerance {tol:e})"));
                }
            }
            if nt >= 2 && log.ncalls > 3 && x.len() > nt {
                ctx.nontrivial();
            }
        }
        (FftFilter { taps }, InputData::C32(x)) => {
            let t = taps.ctaps();
            check_fft(ctx, name, &case.spec, &t, x, &from_bits_c(out), log.ncalls);
        }
        (FftFilterFloat { taps }, InputData::F32(x)) => {
            let t: Vec<Complex> = taps.taps().iter().map(|v| Complex::new(*v, 0.0)).collect();
            let xc: Vec<Complex> = x.iter().map(|v| Complex::new(*v, 0.0)).collect();
            let got: Vec<Complex> = from_bits_f(out).iter().map(|v| Complex::new(*v, 0.0)).collect();
            check_fft(ctx, name, &case.spec, &t, &xc, &got, log.ncalls);
        }
        (Hilbert { half, window }, InputData::F32(x)) => {
            let nt = 2 * *half as usize + 1;
            // the defining taps, computed here: 1/n on odd offsets n from the centre (negative
            // before it), zero on even ones, times the window, normalised to unit gain at fs/4
            let w = window_of(*window).make_window(nt).0;
            let mid = (nt - 1) / 2;
            let mut hd = vec![0f64; nt];
            let mut alt = 0f64; // sum_i (-1)^((i-1)/2) h[mid+i]: half the gain at fs/4
            for i in (1..=mid).step_by(2) {
                hd[mid + i] = w[mid + i] as f64 / i as f64;
                hd[mid - i] = -(w[mid - i] as f64) / i as f64;
                alt += if (i / 2) % 2 == 0 { hd[mid + i] } else { -hd[mid + i] };
            }
            let norm = 1.0 / (2.0 * alt.abs());
            let h: Vec<f32> = hd.iter().map(|v| if alt == 0.0 { f32::NAN } else { (v * norm) as f32 }).collect();
            if nt >= 3 && alt != 0.0 {
                let lib = rustradio::fir::hilbert(&window_of(*window).make_window(nt));
                let worst = lib.iter().zip(h.iter()).map(|(a, b)| (a - b).abs()).fold(0f32, f32::max);
                let scale = h.iter().map(|v| v.abs()).fold(0f32, f32::max);
                if lib.len() != nt || worst > 16.0 * EPS as f32 * scale * nt as f32 {
                    return fail(ctx, "taps", format!("fir::hilbert() with {nt} taps ({:?} window) differs from the defining taps by {worst:e} (largest tap {scale:e})", window));
                }
            }
            let got = from_bits_c(out);
            if got.len() != x.len() {
                return fail(ctx, "count", format!("{} outputs for {} inputs", got.len(), x.len()));
            }
            let st: f64 = h.iter().map(|v| v.abs() as f64).sum();
            let mx = x.iter().map(|v| v.abs() as f64).fold(0.0, f64::max);
            let tol = 64.0 * EPS * st * mx + 1e-30;
            // iv = ntaps zeros ++ x ; out[k] = (iv[k + nt/2], sum_i iv[k+i] * h[nt-1-i])
            let iv = |i: usize| -> f64 { if i < nt { 0.0 } else { x[i - nt] as f64 } };
            for (k, g) in got.iter().enumerate() {
                let re = iv(k + nt / 2);
                let mut im = 0f64;
                for i in 0..nt {
                    im += iv(k + i) * h[nt - 1 - i] as f64;
                }
                if g.re as f64 != re {
                    return fail(ctx, "delayed-input", format!("real part of output {k} is {}, input delayed by {} samples is {re}", g.re, nt - nt / 2));
                }
                if (g.im as f64 - im).abs() > tol {
                    return fail(ctx, "value", format!("imaginary part of output {k} = {}, Hilbert FIR = {im} (tolerance {tol:e})", g.im));
                }
            }
            if nt >= 3 && log.ncalls > 3 {
                ctx.nontrivial();
            }
        }
        (IirF32 { alpha }, InputData::F32(x)) => {
            let got = from_bits_f(out);
            if got.len() != x.len() {
                return fail(ctx, "count", format!("{} outputs for {} inputs", got.len(), x.len()));
            }
            let a = *alpha as f64;
            let oma = (1.0f32 - *alpha) as f64;
            let (mut y, mut e) = (0f64, 0f64);
            for (k, g) in got.iter().enumerate() {
                let yn = x[k] as f64 * a + y * oma;
                e = oma.abs() * e + 4.0 * EPS * ((x[k] as f64 * a).abs() + (y * oma).abs()) + 1e-38;
                y = yn;
                if (*g as f64 - y).abs() > 2.0 * e {
                    return fail(ctx, "recurrence", format!("y[{k}] = {g}, alpha*x + (1-alpha)*y[k-1] = {y} (running bound {:e})", 2.0 * e));
                }
            }
            if log.ncalls > 3 {
                ctx.nontrivial();
            }
        }
        (IirC32 { alpha }, InputData::C32(x)) => {
            let got = from_bits_c(out);
            if got.len() != x.len() {
                return fail(ctx, "count", format!("{} outputs for {} inputs", got.len(), x.len()));
            }
            let a = *alpha as f64;
            let oma = (1.0f32 - *alpha) as f64;
            let (mut yr, mut yi, mut e) = (0f64, 0f64, 0f64);
            for (k, g) in got.iter().enumerate() {
                let m = (x[k].re.abs().max(x[k].im.abs())) as f64 * a + yr.abs().max(yi.abs()) * oma;
                yr = x[k].re as f64 * a + yr * oma;
                yi = x[k].im as f64 * a + yi * oma;
                e = oma.abs() * e + 4.0 * EPS * m + 1e-38;
                if (g.re as f64 - yr).abs() > 2.0 * e || (g.im as f64 - yi).abs() > 2.0 * e {
                    return fail(ctx, "recurrence", format!("y[{k}] = {g}, recurrence gives ({yr}, {yi}) (running bound {:e})", 2.0 * e));
                }
            }
            if log.ncalls > 3 {
                ctx.nontrivial();
            }
        }
        (QuadDemod { gain }, InputData::C32(x)) => {
            let got = from_bits_f(out);
            if got.len() != x.len() {
                return fail(ctx, "count", format!("{} outputs for {} inputs", got.len(), x.len()));
            }
            let mut prev = Complex::new(0.0, 0.0);
            for (k, g) in got.iter().enumerate() {
                let s = x[k];
                let re = s.re as f64 * prev.re as f64 + s.im as f64 * prev.im as f64;
                let im = s.im as f64 * prev.re as f64 - s.re as f64 * prev.im as f64;
                let mag = (re * re + im * im).sqrt();
                let scale = (s.norm() as f64) * (prev.norm() as f64);
                let exact_zero = (s.re == 0.0 && s.im == 0.0) || (prev.re == 0.0 && prev.im == 0.0);
                prev = s;
                if exact_zero {
                    // s * conj(prev) is exactly (+-0, +-0): its argument is atan2 of two signed
                    // zeroes, i.e. 0 or +-pi depending on the signs the product formula yields
                    let a = (*g as f64).abs();
                    let pi_g = (*gain as f64).abs() * std::f64::consts::PI;
                    let tol0 = (*gain as f64).abs() * 8.0 * EPS * std::f64::consts::PI + 1e-30;
                    if a > tol0 && (a - pi_g).abs() > tol0 {
                        return fail(
                            ctx,
                            "value",
                            format!("output {k} = {g} although sample {k} or its predecessor is exactly zero: gain*arg(0) is 0 or +-{pi_g}"),
                        );
                    }
                    continue;
                }
                if mag <= 1e-30 || mag < 1e-3 * scale {
                    continue; // angle of (nearly) zero is not defined
                }
                let w = *gain as f64 * im.atan2(re);
                // well conditioned: |t| = |s||prev|; 8 eps on the angle plus atan2's own rounding
                let tol = (*gain as f64).abs() * (16.0 * EPS * (scale / mag) + 8.0 * EPS * std::f64::consts::PI) + 1e-30;
                // the angle is compared modulo 2*pi (at the branch cut +pi and -pi are the same angle)
                let err = if *gain != 0.0 {
                    let da = (*g as f64 - w) / *gain as f64;
                    let da = (da + std::f64::consts::PI).rem_euclid(std::f64::consts::TAU) - std::f64::consts::PI;
                    (da * *gain as f64).abs()
                } else {
                    (*g as f64 - w).abs()
                };
                if err > tol {
                    if std::env::var_os("VERIF_DEBUG").is_some() {
                        eprintln!("k={k} s={s:?} prev={:?} re={re} im={im} mag={mag} scale={scale}", if k > 0 { x[k - 1] } else { Complex::new(0.0, 0.0) });
                    }
                    return fail(ctx, "value", format!("output {k} = {g}, gain*arg(s*conj(prev)) = {w} (tolerance {tol:e})"));
                }
            }
            if log.ncalls > 3 {
                ctx.nontrivial();
            }
        }
        (FastFm, InputData::C32(x)) => {
            let got = from_bits_f(out);
            if got.len() != x.len() {
                return fail(ctx, "count", format!("{} outputs for {} inputs", got.len(), x.len()));
            }
            // Lyons' difference formula, same f32 operation sequence => bit-exact
            let (mut q1, mut q2) = (Complex::new(0.0, 0.0), Complex::new(0.0, 0.0));
            for (k, g) in got.iter().enumerate() {
                let s = x[k];
                let w = (s.im - q2.im) * q1.re - (s.re - q2.re) * q1.im;
                q2 = q1;
                q1 = s;
                if g.to_bits() != w.to_bits() && !(g.is_nan() && w.is_nan()) {
                    return fail(ctx, "value", format!("output {k} = {g}, difference formula = {w}"));
                }
            }
            if log.ncalls > 3 {
                ctx.nontrivial();
            }
        }
        _ => {}
    }
}

fn check_fft(ctx: &mut Ctx, name: &str, spec: &BlockSpec, t: &[Complex], x: &[Complex], got: &[Complex], ncalls: usize) {
    let nt = t.len();
    let mut n = 1;
    while n < nt {
        n <<= 1;
    }
    let fft_size = 2 * n;
    let nsamples = fft_size - nt;
    let want_n = (x.len() / nsamples) * nsamples;
    if got.len() != want_n {
        ctx.fail(
            format!("C11/{name}/count"),
            format!("{spec:?}: {} outputs for {} inputs; whole blocks of {nsamples} give {want_n}", got.len(), x.len()),
        );
        return;
    }
    let st: f64 = t.iter().map(|v| v.norm() as f64).sum();
    let mx = x.iter().map(|v| v.norm() as f64).fold(0.0, f64::max);
    let tol = 16.0 * EPS * (fft_size as f64).log2() * st * mx + 1e-30;
    let g: Vec<(f64, f64)> = got.iter().map(|c| (c.re as f64, c.im as f64)).collect();
    let w: Vec<(f64, f64)> = (0..want_n).map(|k| conv_c(t, x, k)).collect();
    if let Some((i, e)) = first_bad(&g, &w, tol) {
        ctx.fail(
            format!("C11/{name}/value"),
            format!("{spec:?}: output {i} = {:?}, linear convolution with zero pre-history = {:?}; error {e:e} > tolerance {tol:e}", g[i], w[i]),
        );
        return;
    }
    // cross-implementation identity: FIR[k] == FFT[k + ntaps - 1]
    if want_n >= nt {
        let fir = Fir::new(t);
        let dtol = 64.0 * EPS * st * mx * 2.0 + 1e-30;
        for k in (0..want_n - nt + 1).step_by(7) {
            let f = fir.filter(&x[k..k + nt]);
            let y = got[k + nt - 1];
            if (f.re as f64 - y.re as f64).abs() > tol + dtol || (f.im as f64 - y.im as f64).abs() > tol + dtol {
                ctx.fail(
                    format!("C11/{name}/fir-vs-fft"),
                    format!("{spec:?}: FIR output {k} = {f} but FFT-filter output {} = {y}", k + nt - 1),
                );
                return;
            }
        }
    }
    if nt >= 2 && x.len() > nsamples && ncalls > 3 {
        ctx.nontrivial();
    }
}

fn run_kernel(taps: &TapSpec, input: &Gen, deci: usize, ctx: &mut Ctx) {
    ctx.class(format!("kernel variant={}", variant()));
    let t = taps.taps();
    let nt = t.len();
    let x = gen_f32(&Gen { len: input.len.max(nt as u32), ..*input }, FDom::Finite);
    let fir = Fir::new(&t);
    let st: f64 = t.iter().map(|v| v.abs() as f64).sum();
    let mx = x.iter().map(|v| v.abs() as f64).fold(0.0, f64::max);
    let tol = 64.0 * EPS * st * mx + 1e-30;
    let reference = |k: usize| -> f64 { (0..nt).map(|j| t[j] as f64 * x[k + nt - 1 - j] as f64).sum() };
    let many = fir.filter_n(&x, deci);
    let want_n = (x.len() - nt) / deci + 1;
    if many.len() != want_n {
        ctx.fail("C11/Fir/filter_n-count".to_string(), format!("{} outputs, expected {want_n} ({} inputs, {nt} taps, step {deci})", many.len(), x.len()));
        return;
    }
    for (i, v) in many.iter().enumerate() {
        let k = i * deci;
        let w = reference(k);
        let scalar = fir.filter(&x[k..]);
        let fl = fir.filter_float(&x[k..k + nt]);
        if (*v as f64 - w).abs() > tol || (scalar as f64 - w).abs() > tol {
            ctx.fail("C11/Fir/filter-value".to_string(), format!("filter at offset {k}: filter_n {v}, filter {scalar}, dot product {w} (tolerance {tol:e})"));
            return;
        }
        if (fl as f64 - w).abs() > tol {
            ctx.fail(
                format!("C11/Fir/filter_float-value/{}", variant()),
                format!("filter_float ({} build) at offset {k} = {fl}, scalar filter = {scalar}, dot product = {w} (tolerance {tol:e}, {nt} taps)", variant()),
            );
            return;
        }
    }
    if nt >= 2 {
        ctx.nontrivial();
    }
}

fn run_iir(taps: &[i8], input: &Gen, clamp: Option<(i8, i8)>, ctx: &mut Ctx) {
    ctx.class("iir-taps");
    // feedback taps scaled so that sum |t_i| (i >= 1) <= 1: bounded output
    let fb: f32 = taps[1..].iter().map(|v| (*v as f32).abs()).sum::<f32>().max(1.0);
    let t: Vec<f32> = taps.iter().enumerate().map(|(i, v)| if i == 0 { *v as f32 / 50.0 } else { *v as f32 / fb * 0.98 }).collect();
    let x = gen_f32(input, FDom::Finite);
    let mut f = IirFilter::new(&t);
    let mut hist: Vec<f64> = Vec::new(); // y[n-1], y[n-2], ...
    let mut e = 0f64;
    let fbs: f64 = t[1..].iter().map(|v| v.abs() as f64).sum();
    for (k, xv) in x.iter().enumerate() {
        let got = match clamp {
            None => f.filter(*xv),
            Some((lo, hi)) => f.filter_clamped(*xv, lo as f32, hi as f32),
        };
        let mut y = t[0] as f64 * *xv as f64;
        let mut mag = y.abs();
        for (i, h) in hist.iter().enumerate() {
            if i + 1 < t.len() {
                y += h * t[i + 1] as f64;
                mag += (h * t[i + 1] as f64).abs();
            }
        }
        e = fbs * e + 4.0 * EPS * mag * (t.len() as f64) + 1e-38;
        if let Some((lo, hi)) = clamp {
            y = y.clamp(lo as f64, hi as f64);
        }
        hist.insert(0, y);
        hist.truncate(t.len().saturating_sub(1));
        if (got as f64 - y).abs() > 2.0 * e + 1e-30 {
            // at a clamp edge a value within the error bound of the edge may clamp differently: still within e
            ctx.fail(
                format!("C11/IirFilter/{}", if clamp.is_some() { "filter_clamped" } else { "filter" }),
                format!("taps {t:?}: output {k} = {got}, recurrence = {y} (running bound {:e})", 2.0 * e),
            );
            return;
        }
    }
    if t.len() >= 2 && x.len() > 3 {
        ctx.nontrivial();
    }
}

fn run_lowpass(rate: u32, cutoff_pct: u8, twidth_pct: u8, window: u8, ctx: &mut Ctx) {
    let wname = ["Hamming", "HammingParm", "Blackman", "BlackmanHarris"][(window % 4) as usize];
    ctx.class(format!("low_pass window={wname}"));
    ctx.nontrivial();
    let rate = rate as f32;
    let cutoff = rate * cutoff_pct as f32 / 100.0;
    let twidth = (rate * twidth_pct as f32 / 100.0).max(rate / 2000.0);
    let taps = rustradio::fir::low_pass(rate, cutoff, twidth, &window_of(window));
    let ctaps = rustradio::fir::low_pass_complex(rate, cutoff, twidth, &window_of(window));
    let n = taps.len();
    if n == 0 || n % 2 == 0 {
        ctx.fail(format!("C11/low_pass/length/{wname}"), format!("{n} taps (an odd count is documented)"));
        return;
    }
    if ctaps.len() != n || ctaps.iter().zip(taps.iter()).any(|(c, t)| c.re.to_bits() != t.to_bits() || c.im != 0.0) {
        ctx.fail(format!("C11/low_pass_complex/differs/{wname}"), "low_pass_complex is not low_pass with zero imaginary parts".to_string());
    }
    let peak = taps.iter().map(|t| t.abs() as f64).fold(0.0, f64::max);
    let asym = (0..n / 2).map(|i| (taps[i] as f64 - taps[n - 1 - i] as f64).abs()).fold(0.0, f64::max);
    if asym > 64.0 * EPS * peak {
        ctx.fail(
            format!("C11/low_pass/asymmetric/{wname}"),
            format!("low_pass({rate}, {cutoff}, {twidth}, {wname}): {n} taps, max |t[i] - t[n-1-i]| = {asym:e} (peak tap {peak:e}): not linear phase"),
        );
    }
    let dc: f64 = taps.iter().map(|t| *t as f64).sum();
    let sabs: f64 = taps.iter().map(|t| t.abs() as f64).sum();
    if (dc - 1.0).abs() > 64.0 * EPS * sabs * (n as f64).sqrt().max(1.0) {
        ctx.fail(
            format!("C11/low_pass/dc-gain/{wname}"),
            format!("low_pass({rate}, {cutoff}, {twidth}, {wname}): {n} taps sum to {dc}, not 1"),
        );
    }
}
