//! C14 — byte formats round-trip and survive arbitrary read segmentation.
use std::io::Write;

use proptest::prelude::*;
use rustradio::block::Block;
use rustradio::blocks::*;
use rustradio::file_sink::Mode;
use rustradio::{Complex, Sample};
use serde::{Deserialize, Serialize};

use crate::drip::*;
use crate::engine::{Ctx, Prop, Tier, catch, loc_file};
use crate::gens::*;
use crate::refmodel as rm;
use crate::ring::Sz;

pub struct C14;

#[derive(Clone, Copy, Debug, Serialize, Deserialize, PartialEq, Eq)]
pub enum Ty {
    U8,
    U32,
    I32,
    F32,
    C32,
}

#[derive(Clone, Debug, Serialize, Deserialize, PartialEq)]
pub enum C14Case {
    /// serialize . parse == id on raw bit patterns
    Codec { ty: Ty, bits: Vec<u64> },
    /// FileSink -> FileSource
    File { ty: Ty, len: u32, seed: u32, pages: u8, sched_a: Vec<Step>, sched_b: Vec<Step>, drain: Sz },
    /// SigMF recording pair / archive; members in generated order; malform: 0 none, 1 two metas, 2 no data, 3 duplicate data, 4 wrong datatype, 5 garbage meta
    SigMf { ty: Ty, len: u32, seed: u32, archive: bool, order: Vec<u8>, extras: u8, malform: u8, pages: u8, sched: Vec<Step>, drain: Sz },
    /// AuEncode -> AuDecode
    Au { input: Gen, pages: u8, sched_a: Vec<Step>, sched_b: Vec<Step>, drain_a: Sz, drain_b: Sz },
    /// decode the repository's recording
    AuFile { pages: u8, sched: Vec<Step>, drain: Sz },
    /// FileSource reading a FIFO whose writer releases these chunk sizes
    Fifo { ty: Ty, len: u32, seed: u32, chunks: Vec<u16>, pages: u8 },
    /// TcpSource against a loopback listener releasing these chunk sizes
    Tcp { ty: Ty, len: u32, seed: u32, chunks: Vec<u16>, pages: u8 },
}

fn ty_strategy() -> impl Strategy<Value = Ty> {
    prop_oneof![Just(Ty::U8), Just(Ty::U32), Just(Ty::I32), Just(Ty::F32), Just(Ty::C32)]
}
fn sigmf_ty() -> impl Strategy<Value = Ty> {
    prop_oneof![Just(Ty::U8), Just(Ty::I32), Just(Ty::F32), Just(Ty::C32)]
}

fn size_of(ty: Ty) -> usize {
    match ty {
        Ty::U8 => 1,
        Ty::U32 | Ty::I32 | Ty::F32 => 4,
        Ty::C32 => 8,
    }
}

/// Raw bytes of `len` samples: arbitrary bit patterns (NaN payloads included).
fn raw_bytes(ty: Ty, len: u32, seed: u32) -> Vec<u8> {
    let mut r = XRng::new(seed as u64 ^ 0xc14);
    (0..len as usize * size_of(ty)).map(|_| r.next() as u8).collect()
}

/// parse of the bytes, as canonical bits per sample, by an independent little-endian reader
fn expected_bits(ty: Ty, bytes: &[u8]) -> Vec<u64> {
    bytes
        .chunks_exact(size_of(ty))
        .map(|c| match ty {
            Ty::U8 => c[0] as u64,
            Ty::U32 | Ty::I32 | Ty::F32 => u32::from_le_bytes([c[0], c[1], c[2], c[3]]) as u64,
            Ty::C32 => {
                let re = u32::from_le_bytes([c[0], c[1], c[2], c[3]]) as u64;
                let im = u32::from_le_bytes([c[4], c[5], c[6], c[7]]) as u64;
                (re << 32) | im
            }
        })
        .collect()
}

macro_rules! with_ty {
    ($ty:expr, $f:ident, $($arg:expr),*) => {
        match $ty {
            Ty::U8 => $f::<u8>($($arg),*),
            Ty::U32 => $f::<u32>($($arg),*),
            Ty::I32 => $f::<i32>($($arg),*),
            Ty::F32 => $f::<f32>($($arg),*),
            Ty::C32 => $f::<Complex>($($arg),*),
        }
    };
}

trait S14: Samp + Sample<Type = Self> + Default + std::fmt::Debug {
    fn from_le(b: &[u8]) -> Self;
}
impl S14 for u8 {
    fn from_le(b: &[u8]) -> Self {
        b[0]
    }
}
impl S14 for u32 {
    fn from_le(b: &[u8]) -> Self {
        u32::from_le_bytes([b[0], b[1], b[2], b[3]])
    }
}
impl S14 for i32 {
    fn from_le(b: &[u8]) -> Self {
        i32::from_le_bytes([b[0], b[1], b[2], b[3]])
    }
}
impl S14 for f32 {
    fn from_le(b: &[u8]) -> Self {
        f32::from_le_bytes([b[0], b[1], b[2], b[3]])
    }
}
impl S14 for Complex {
    fn from_le(b: &[u8]) -> Self {
        Complex::new(f32::from_le_bytes([b[0], b[1], b[2], b[3]]), f32::from_le_bytes([b[4], b[5], b[6], b[7]]))
    }
}

fn typed<T: S14>(ty: Ty, bytes: &[u8]) -> Vec<T> {
    bytes.chunks_exact(size_of(ty)).map(T::from_le).collect()
}

fn codec<T: S14>(ty: Ty, bits: &[u64], ctx: &mut Ctx) {
    for b in bits {
        let bytes: Vec<u8> = match ty {
            Ty::U8 => vec![*b as u8],
            Ty::C32 => {
                let mut v = ((*b >> 32) as u32).to_le_bytes().to_vec();
                v.extend((*b as u32).to_le_bytes());
                v
            }
            _ => (*b as u32).to_le_bytes().to_vec(),
        };
        let r = catch(|| -> Result<(usize, Vec<u8>, u64), String> {
            let v = T::parse(&bytes).map_err(|e| format!("{e}"))?;
            Ok((T::size(), v.serialize(), v.bits()))
        });
        match r {
            Err(pi) => ctx.fail(format!("C14/codec/panic/{}", loc_file(&pi.loc)), format!("{ty:?}: parse/serialize of {bytes:02x?} panicked: {}", pi.msg)),
            Ok(Err(e)) => ctx.fail(format!("C14/codec/{ty:?}/parse-error"), format!("parse of {bytes:02x?} failed: {e}")),
            Ok(Ok((size, ser, vb))) => {
                if ser != bytes || size != bytes.len() {
                    ctx.fail(
                        format!("C14/codec/{ty:?}/roundtrip"),
                        format!("bytes {bytes:02x?} parse to a value that serialises as {ser:02x?}; size() = {size}"),
                    );
                }
                let want = expected_bits(ty, &bytes)[0];
                if vb != want {
                    ctx.fail(format!("C14/codec/{ty:?}/value"), format!("bytes {bytes:02x?} parsed to bits {vb:#x}, little-endian reading gives {want:#x}"));
                }
            }
        }
    }
    ctx.nontrivial();
}

fn sink_then_source<T: S14>(ty: Ty, bytes: &[u8], pages: u8, sched_a: &[Step], sched_b: &[Step], drain: Sz, ctx: &mut Ctx) {
    let sc = Scratch::new();
    let path = sc.path("rt.bin");
    let data: Vec<T> = typed(ty, bytes);
    let size = Some(pages.max(1) as usize * 4096);
    rustradio::verif::set_stream_size(size);
    let (sin, rs) = SIn::new(data, vec![]);
    // the recording replaces an older one of another length (derived from the data, so the
    // case stays a pure function of its fields): every third case longer, every third shorter
    match bytes.len() % 3 {
        0 => {}
        1 => std::fs::write(&path, vec![0xA5u8; bytes.len() + 1 + bytes.len() % 977]).expect("scratch file"),
        _ => std::fs::write(&path, vec![0x5Au8; bytes.len() / 2]).expect("scratch file"),
    }
    let sink = match FileSink::<T>::new(rs, &path, Mode::Overwrite) {
        Ok(s) => s,
        Err(e) => {
            ctx.fail("C14/file/sink-open".to_string(), format!("{e}"));
            return;
        }
    };
    let mut a = Built { scratch: None, sink_probe: None, name: "FileSink".into(), block: Box::new(sink), ins: vec![Box::new(sin)], outs: vec![] };
    let la = drive(&mut a, sched_a, &DriveOpts { drain_feed: drain, ..DriveOpts::default() });
    drop(a);
    if let Some(pi) = la.panic {
        ctx.fail(format!("C14/file/panic/{}", loc_file(&pi.loc)), format!("FileSink<{ty:?}> panicked: {}", pi.msg));
        return;
    }
    let on_disk = std::fs::read(&path).unwrap_or_default();
    if on_disk != bytes {
        ctx.fail(
            format!("C14/file/sink-bytes/{ty:?}"),
            format!("FileSink<{ty:?}> wrote {} bytes, the serialised stream has {}", on_disk.len(), bytes.len()),
        );
        return;
    }
    rustradio::verif::set_stream_size(size);
    let (src, out) = match FileSource::<T>::new(&path) {
        Ok(x) => x,
        Err(e) => {
            ctx.fail("C14/file/source-open".to_string(), format!("{e}"));
            return;
        }
    };
    let mut b = Built { scratch: None, sink_probe: None, name: "FileSource".into(), block: Box::new(src), ins: vec![], outs: vec![Box::new(SOut::new(out))] };
    rustradio::verif::set_stream_size(None);
    let lb = drive(&mut b, sched_b, &DriveOpts { drain_free: drain, ..DriveOpts::default() });
    if let Some(pi) = lb.panic {
        ctx.fail(format!("C14/file/panic/{}", loc_file(&pi.loc)), format!("FileSource<{ty:?}> panicked: {}", pi.msg));
        return;
    }
    let PortData::Samples(got) = &lb.outs[0].data else { return };
    let want = expected_bits(ty, bytes);
    if *got != want {
        ctx.fail(
            format!("C14/file/roundtrip/{ty:?}"),
            format!("FileSink -> FileSource<{ty:?}>: {} samples read back, {} written; first difference at {:?}", got.len(), want.len(), got.iter().zip(want.iter()).position(|(a, b)| a != b)),
        );
    }
    if want.len() > pages.max(1) as usize * 4096 / size_of(ty) {
        ctx.class("file-longer-than-capacity");
        ctx.nontrivial();
    }
}

fn datatype(ty: Ty) -> &'static str {
    match ty {
        Ty::U8 => "ru8_le",
        Ty::I32 => "ri32_le",
        Ty::F32 => "rf32_le",
        Ty::C32 => "cf32_le",
        Ty::U32 => "ru32_le",
    }
}

#[allow(clippy::too_many_arguments)]
fn sigmf<T: S14 + rustradio::sigmf::Type>(ty: Ty, bytes: &[u8], archive: bool, order: &[u8], extras: u8, malform: u8, pages: u8, sched: &[Step], drain: Sz, ctx: &mut Ctx) {
    let sc = Scratch::new();
    let dt = if malform == 4 { "cf64_le" } else { datatype(ty) };
    let meta = if malform == 5 {
        "{\"global\": [1,2".to_string()
    } else {
        format!(r#"{{"global":{{"core:datatype":"{dt}","core:version":"1.1.0"}},"captures":[{{"core:sample_start":0}}],"annotations":[]}}"#)
    };
    let path = if archive {
        let path = sc.path("capture.sigmf");
        // members: 0 meta, 1 data, 2.. unrelated; written in the generated order
        let mut members: Vec<(String, Vec<u8>)> = Vec::new();
        // every third archive uses member paths beyond the 100 bytes of a tar header's name
        // field (GNU long-name records, as GNU tar and the tar crate write them)
        let dir: String = if bytes.len() % 3 == 2 {
            ctx.class("archive-long-member-names");
            format!("cap/{}", "a-rather-long-directory-name-for-a-recording/".repeat(3))
        } else {
            "cap/".to_string()
        };
        members.push((format!("{dir}capture.sigmf-meta"), meta.clone().into_bytes()));
        if malform != 2 {
            members.push((format!("{dir}capture.sigmf-data"), bytes.to_vec()));
        }
        if malform == 1 {
            members.push((format!("{dir}second.sigmf-meta"), meta.clone().into_bytes()));
        }
        if malform == 3 {
            members.push((format!("{dir}capture.sigmf-data"), bytes.to_vec()));
        }
        let first_extra = members.len();
        for i in 0..extras {
            members.push((format!("{dir}unrelated{i}.txt"), vec![b'x'; 100 + 413 * i as usize]));
        }
        // order keys -> permutation
        let mut idx: Vec<usize> = (0..members.len()).collect();
        idx.sort_by_key(|i| (order.get(*i).copied().unwrap_or(0), *i));
        let f = std::fs::File::create(&path).expect("create archive");
        let mut tb = tar::Builder::new(f);
        for i in &idx {
            let (name, data) = &members[*i];
            let mut h = tar::Header::new_gnu();
            h.set_mode(0o644);
            // unrelated members are not all plain files: what `tar c` of a working directory or
            // `git archive` produce also holds directories, links, fifos and pax global headers
            let kind = if *i >= first_extra { (bytes.len() + *i) % 6 } else { 0 };
            match kind {
                1 => {
                    ctx.class("archive-with-unrelated-directory");
                    h.set_entry_type(tar::EntryType::Directory);
                    h.set_size(0);
                    h.set_cksum();
                    tb.append_data(&mut h, format!("{name}.d/"), &[][..]).expect("tar append");
                }
                2 | 3 => {
                    ctx.class("archive-with-unrelated-link");
                    h.set_entry_type(if kind == 2 { tar::EntryType::Symlink } else { tar::EntryType::Link });
                    h.set_size(0);
                    tb.append_link(&mut h, name, format!("{dir}capture.sigmf-meta")).expect("tar append");
                }
                4 => {
                    ctx.class("archive-with-pax-global-header");
                    let rec = b"52 comment=0123456789abcdef0123456789abcdef01234567\n";
                    h.set_entry_type(tar::EntryType::XGlobalHeader);
                    h.set_size(rec.len() as u64);
                    h.set_cksum();
                    tb.append_data(&mut h, "pax_global_header", &rec[..]).expect("tar append");
                }
                5 => {
                    ctx.class("archive-with-unrelated-fifo");
                    h.set_entry_type(tar::EntryType::Fifo);
                    h.set_size(0);
                    h.set_cksum();
                    tb.append_data(&mut h, name, &[][..]).expect("tar append");
                }
                _ => {
                    h.set_size(data.len() as u64);
                    h.set_cksum();
                    tb.append_data(&mut h, name, &data[..]).expect("tar append");
                }
            }
        }
        tb.finish().expect("tar finish");
        if idx.iter().position(|i| *i == 0) > idx.iter().position(|i| *i == 1) || extras > 0 {
            ctx.class("archive-noncanonical-order-or-extras");
            if members.len() >= 3 {
                ctx.nontrivial();
            }
        }
        path
    } else {
        std::fs::write(sc.path("capture.sigmf-meta"), &meta).unwrap();
        if malform != 2 {
            std::fs::write(sc.path("capture.sigmf-data"), bytes).unwrap();
        }
        sc.path("capture.sigmf")
    };
    let must_fail = match malform {
        0 => false,
        1 | 3 => archive, // only expressible in an archive
        _ => true,
    };
    rustradio::verif::set_stream_size(Some(pages.max(1) as usize * 4096));
    let r = catch(|| rustradio::sigmf::SigMFSource::<T>::new(&path, None));
    rustradio::verif::set_stream_size(None);
    let what = format!("SigMFSource<{ty:?}> on {} (malform {malform}, {extras} unrelated members)", if archive { "an archive" } else { "a recording pair" });
    match r {
        Err(pi) => ctx.fail(format!("C14/sigmf/panic/{}", loc_file(&pi.loc)), format!("{what}: constructor panicked: {}", pi.msg)),
        Ok(Err(_)) if must_fail => {
            ctx.class("sigmf-malformed-rejected");
            ctx.nontrivial();
        }
        Ok(Err(e)) => ctx.fail(format!("C14/sigmf/valid-rejected/{}", if archive { "archive" } else { "recording" }), format!("{what}: {e}")),
        Ok(Ok(_)) if must_fail => ctx.fail(format!("C14/sigmf/malformed-accepted/{malform}"), format!("{what}: accepted")),
        Ok(Ok((src, out))) => {
            let mut b = Built { scratch: None, sink_probe: None, name: "SigMFSource".into(), block: Box::new(src), ins: vec![], outs: vec![Box::new(SOut::new(out))] };
            let lb = drive(&mut b, sched, &DriveOpts { drain_free: drain, ..DriveOpts::default() });
            if let Some(pi) = lb.panic {
                ctx.fail(format!("C14/sigmf/panic/{}", loc_file(&pi.loc)), format!("{what}: work() panicked: {}", pi.msg));
                return;
            }
            let PortData::Samples(got) = &lb.outs[0].data else { return };
            let want = expected_bits(ty, bytes);
            if *got != want {
                ctx.fail(
                    format!("C14/sigmf/samples/{}", if archive { "archive" } else { "recording" }),
                    format!("{what}: {} samples delivered, the data member holds {}; first difference at {:?}", got.len(), want.len(), got.iter().zip(want.iter()).position(|(a, b)| a != b)),
                );
            }
        }
    }
}

fn au_roundtrip(input: &Gen, pages: u8, sched_a: &[Step], sched_b: &[Step], drain_a: Sz, drain_b: Sz, ctx: &mut Ctx) {
    // x in [-1, 1] plus a few values just outside (saturation) 
    let mut x = gen_f32(input, FDom::Unit);
    for (i, v) in x.iter_mut().enumerate() {
        if i % 97 == 13 {
            *v *= 1.5;
        }
    }
    let size = Some(pages.max(1) as usize * 4096);
    rustradio::verif::set_stream_size(size);
    let (sin, rs) = SIn::new(x.clone(), vec![]);
    let (enc, eo) = AuEncode::new(rs, rustradio::au::Encoding::Pcm16, 44100, 1);
    let mut a = Built { scratch: None, sink_probe: None, name: "AuEncode".into(), block: Box::new(enc), ins: vec![Box::new(sin)], outs: vec![Box::new(SOut::new(eo))] };
    rustradio::verif::set_stream_size(None);
    let la = drive(&mut a, sched_a, &DriveOpts { drain_feed: drain_a, drain_free: drain_b, ..DriveOpts::default() });
    if la.panic.is_some() || la.error.is_some() {
        ctx.fail("C14/au/encode-failed".to_string(), format!("AuEncode: panic {:?} error {:?}", la.panic.map(|p| p.msg), la.error));
        return;
    }
    let PortData::Samples(encoded) = &la.outs[0].data else { return };
    let encoded: Vec<u8> = encoded.iter().map(|b| *b as u8).collect();
    // the encoder's bytes: documented header + big-endian PCM16
    let mut want_bytes = rm::au_header(44100);
    for v in &x {
        want_bytes.extend(rm::pcm16(*v).to_be_bytes());
    }
    if encoded != want_bytes {
        ctx.fail(
            "C14/au/encoder-bytes".to_string(),
            format!("AuEncode produced {} bytes, header + PCM16 is {} bytes; first difference at {:?}", encoded.len(), want_bytes.len(), encoded.iter().zip(want_bytes.iter()).position(|(a, b)| a != b)),
        );
        return;
    }
    decode_and_compare(&encoded, &x.iter().map(|v| rm::pcm16(*v)).collect::<Vec<_>>(), pages, sched_b, drain_b, "AuEncode output", ctx);
    if x.len() * 2 > pages.max(1) as usize * 4096 {
        ctx.nontrivial();
    }
}

fn decode_and_compare(bytes: &[u8], pcm: &[i16], pages: u8, sched: &[Step], drain: Sz, what: &str, ctx: &mut Ctx) {
    rustradio::verif::set_stream_size(Some(pages.max(1) as usize * 4096));
    let (sin, rs) = SIn::new(bytes.to_vec(), vec![]);
    let (dec, dout) = AuDecode::new(rs, 44100);
    let mut b = Built { scratch: None, sink_probe: None, name: "AuDecode".into(), block: Box::new(dec), ins: vec![Box::new(sin)], outs: vec![Box::new(SOut::new(dout))] };
    rustradio::verif::set_stream_size(None);
    let lb = drive(&mut b, sched, &DriveOpts { drain_feed: drain, drain_free: drain, ..DriveOpts::default() });
    if let Some(pi) = &lb.panic {
        ctx.fail(format!("C14/au/decode-panic/{}", loc_file(&pi.loc)), format!("AuDecode on {what}: {}", pi.msg));
        return;
    }
    if let Some(e) = &lb.error {
        ctx.fail("C14/au/decode-error".to_string(), format!("AuDecode rejected {what}: {e}"));
        return;
    }
    let PortData::Samples(got) = &lb.outs[0].data else { return };
    let want: Vec<u64> = pcm.iter().map(|s| (*s as f32 / 32767.0).to_bits() as u64).collect();
    if *got != want {
        ctx.fail(
            "C14/au/decoded-samples".to_string(),
            format!(
                "AuDecode on {what}: {} samples decoded, the data section holds {} PCM16 samples; first difference at {:?}",
                got.len(),
                want.len(),
                got.iter().zip(want.iter()).position(|(a, b)| a != b)
            ),
        );
    }
}

/// FIFO: the harness is the writer end (non-blocking); before every work() call at least
/// one byte is in the pipe (or the writer is closed), so the source's blocking read returns.
fn fifo<T: S14>(ty: Ty, bytes: &[u8], chunks: &[u16], pages: u8, ctx: &mut Ctx) {
    let sc = Scratch::new();
    let path = sc.path("fifo");
    let cpath = std::ffi::CString::new(path.to_str().unwrap()).unwrap();
    if unsafe { libc::mkfifo(cpath.as_ptr(), 0o600) } != 0 {
        ctx.skip("mkfifo failed");
        return;
    }
    // O_RDWR so that neither this open nor the source's open blocks
    let wfd = unsafe { libc::open(cpath.as_ptr(), libc::O_RDWR | libc::O_NONBLOCK) };
    if wfd < 0 {
        ctx.skip("cannot open fifo");
        return;
    }
    rustradio::verif::set_stream_size(Some(pages.max(1) as usize * 4096));
    let r = FileSource::<T>::new(&path);
    rustradio::verif::set_stream_size(None);
    let (mut src, out) = match r {
        Ok(x) => x,
        Err(e) => {
            unsafe { libc::close(wfd) };
            ctx.fail("C14/fifo/open".to_string(), format!("{e}"));
            return;
        }
    };
    let mut outp = SOut::new(out);
    let mut pos = 0usize;
    let mut ci = 0usize;
    let mut split_inside = false;
    let mut calls = 0;
    let mut closed = false;
    let res = catch(|| -> Result<(), String> {
        loop {
            let mut in_pipe: libc::c_int = 0;
            unsafe { libc::ioctl(wfd, libc::FIONREAD, &mut in_pipe) };
            if in_pipe == 0 {
                if pos >= bytes.len() {
                    // everything is written and taken out of the pipe (some of it may still sit
                    // in the source's read buffer): close the writer, then run to EOF
                    unsafe { libc::close(wfd) };
                    closed = true;
                    for _ in 0..200_000 {
                        outp.drain(usize::MAX);
                        match src.work() {
                            Ok(rustradio::block::BlockRet::EOF) => break,
                            Ok(_) => {}
                            Err(e) => return Err(format!("work: {e}")),
                        }
                    }
                    break;
                }
                let k = (chunks[ci % chunks.len()] as usize).clamp(1, 60_000).min(bytes.len() - pos);
                ci += 1;
                let w = unsafe { libc::write(wfd, bytes[pos..].as_ptr() as *const libc::c_void, k) };
                if w <= 0 {
                    return Err("pipe write failed".into());
                }
                pos += w as usize;
                if pos % size_of(ty) != 0 {
                    split_inside = true;
                }
            }
            outp.drain(usize::MAX);
            match src.work() {
                Ok(rustradio::block::BlockRet::EOF) => return Err("EOF while the writer is still open".into()),
                // the source's only stream is its output, which is completely empty here: a
                // wait on it can never end (a runner stops calling the block with data still
                // to come)
                Ok(rustradio::block::BlockRet::WaitForStream(_, need)) if crate::drip::OutPort::available(&outp) == 0 && need <= crate::drip::OutPort::capacity(&outp) => {
                    return Err(format!("misdirected wait: the source waits for {need} free samples on its completely empty output while the writer of the FIFO is still open ({pos} of {} bytes written)", bytes.len()));
                }
                Ok(_) => {}
                Err(e) => return Err(format!("work: {e}")),
            }
            calls += 1;
            if calls > 200_000 {
                return Err("too many calls".into());
            }
        }
        outp.drain(usize::MAX);
        Ok(())
    });
    if !closed {
        unsafe { libc::close(wfd) };
    }
    match res {
        Err(pi) => ctx.fail(format!("C14/fifo/panic/{}", loc_file(&pi.loc)), format!("FileSource<{ty:?}> on a FIFO: {}", pi.msg)),
        Ok(Err(e)) => ctx.fail("C14/fifo/error".to_string(), format!("FileSource<{ty:?}> on a FIFO: {e}")),
        Ok(Ok(())) => {
            let PortData::Samples(got) = outp.collected().data else { return };
            let want = expected_bits(ty, bytes);
            if got != want {
                ctx.fail(
                    format!("C14/fifo/samples/{ty:?}"),
                    format!("FileSource<{ty:?}> on a FIFO released in chunks {:?}...: {} samples, expected {}; first difference at {:?}", &chunks[..chunks.len().min(6)], got.len(), want.len(), got.iter().zip(want.iter()).position(|(a, b)| a != b)),
                );
            }
            if split_inside {
                ctx.class("split-inside-a-sample");
                ctx.nontrivial();
            }
        }
    }
}

/// Bytes waiting in the receive queue of the loopback socket client_port -> server_port.
fn client_rx_queue(client_port: u16, server_port: u16) -> Option<usize> {
    let s = std::fs::read_to_string("/proc/net/tcp").ok()?;
    let want_local = format!("0100007F:{client_port:04X}");
    let want_rem = format!("0100007F:{server_port:04X}");
    for l in s.lines().skip(1) {
        let f: Vec<&str> = l.split_whitespace().collect();
        if f.len() > 4 && f[1] == want_local && f[2] == want_rem {
            let (_tx, rx) = f[4].split_once(':')?;
            return usize::from_str_radix(rx, 16).ok();
        }
    }
    None
}

fn tcp<T: S14>(ty: Ty, bytes: &[u8], chunks: &[u16], pages: u8, ctx: &mut Ctx) {
    let listener = match std::net::TcpListener::bind("127.0.0.1:0") {
        Ok(l) => l,
        Err(_) => {
            ctx.skip("cannot bind a loopback listener");
            return;
        }
    };
    let port = listener.local_addr().unwrap().port();
    rustradio::verif::set_stream_size(Some(pages.max(1) as usize * 4096));
    let r = TcpSource::<T>::new("127.0.0.1", port);
    rustradio::verif::set_stream_size(None);
    let (mut src, out) = match r {
        Ok(x) => x,
        Err(e) => {
            ctx.skip(format!("connect failed: {e}"));
            return;
        }
    };
    let (mut conn, peer) = listener.accept().expect("accept");
    conn.set_nodelay(true).ok();
    let client_port = peer.port();
    let mut outp = SOut::new(out);
    let mut pos = 0usize;
    let mut ci = 0usize;
    let mut split_inside = false;
    // one case in four: the reader of the source's output lags
    let stalled = chunks.first().map(|c| c % 4 == 0).unwrap_or(false);
    if stalled {
        ctx.class("tcp: lagging reader (1-3 free output slots)");
    }
    let res = catch(|| -> Result<(), String> {
        // at most ~64 chunks per case (each one costs a /proc/net/tcp poll)
        let min_chunk = (bytes.len() / 64).max(1);
        while pos < bytes.len() {
            let k = (chunks[ci % chunks.len()] as usize).clamp(min_chunk, 30_000).min(bytes.len() - pos);
            ci += 1;
            conn.write_all(&bytes[pos..pos + k]).map_err(|e| format!("send: {e}"))?;
            pos += k;
            if pos % size_of(ty) != 0 {
                split_inside = true;
            }
            // wait until the bytes sit in the client's receive queue (not merely until they are
            // acknowledged: delayed ACKs would cost 40 ms per chunk)
            let mut queued = false;
            for _ in 0..20_000 {
                if client_rx_queue(client_port, port).unwrap_or(0) > 0 {
                    queued = true;
                    break;
                }
                std::thread::yield_now();
            }
            if !queued {
                return Err("infrastructure: sent bytes never showed up in the client's receive queue".into());
            }
            // one read per chunk (the source reads at most once per work() call); more calls
            // only while its output still has room and bytes are certainly queued
            let mut remaining = k;
            let mut guard = 0;
            if stalled {
                // a reader that lags: the output is left with 1-3 free slots (or drained) before
                // each call; calls are made only while bytes are certainly queued
                let mut calls = 0usize;
                while client_rx_queue(client_port, port).unwrap_or(0) > 0 && calls < 60 {
                    calls += 1;
                    let cap = outp.capacity();
                    let free = cap - outp.available();
                    // the output is only ever freed when it is full: by 1-3 slots, now and then
                    // by half
                    let target = if free == 0 && calls % 7 == 0 { cap / 2 } else { 1 + (calls + ci) % 3 };
                    if free < target {
                        outp.drain(target - free);
                    }
                    let free_before = cap - outp.available();
                    let avail_before = outp.available();
                    match src.work() {
                        Ok(rustradio::block::BlockRet::EOF) => return Err("EOF while the connection is open and data is queued".into()),
                        Ok(rustradio::block::BlockRet::WaitForStream(_, need)) if free_before >= need && need > 0 && outp.available() == avail_before => {
                            return Err(format!("misdirected wait: bytes are queued on the connection, the output has {free_before} free slots, and the source reports a wait for {need} free slot(s) on it without reading anything"));
                        }
                        Ok(_) => {}
                        Err(e) => return Err(format!("work: {e}")),
                    }
                }
                remaining = 0;
            }
            // calls are made only while bytes are certainly queued (the source's read blocks
            // otherwise); how much one read takes is the source's business
            while remaining > 0 && client_rx_queue(client_port, port).unwrap_or(0) > 0 {
                outp.drain(usize::MAX);
                match src.work() {
                    Ok(rustradio::block::BlockRet::EOF) => return Err("EOF while the connection is open and data is queued".into()),
                    Ok(_) => {}
                    Err(e) => return Err(format!("work: {e}")),
                }
                guard += 1;
                if guard > 1000 {
                    return Err("no progress".into());
                }
            }
        }
        if stalled {
            // whatever is still queued is read with the output drained
            let mut calls = 0;
            while client_rx_queue(client_port, port).unwrap_or(0) > 0 && calls < 2000 {
                calls += 1;
                outp.drain(usize::MAX);
                match src.work() {
                    Ok(rustradio::block::BlockRet::EOF) => return Err("EOF while the connection is open and data is queued".into()),
                    Ok(_) => {}
                    Err(e) => return Err(format!("work: {e}")),
                }
            }
        }
        outp.drain(usize::MAX);
        Ok(())
    });
    match res {
        Err(pi) => ctx.fail(format!("C14/tcp/panic/{}", loc_file(&pi.loc)), format!("TcpSource<{ty:?}>, chunks {:?}...: panic at {}: {}", &chunks[..chunks.len().min(6)], pi.loc, pi.msg)),
        Ok(Err(e)) => ctx.fail("C14/tcp/error".to_string(), format!("TcpSource<{ty:?}>, chunks {:?}...: {e}", &chunks[..chunks.len().min(6)])),
        Ok(Ok(())) => {
            let PortData::Samples(got) = outp.collected().data else { return };
            let want = expected_bits(ty, bytes);
            if got != want {
                ctx.fail(
                    format!("C14/tcp/samples/{ty:?}"),
                    format!("TcpSource<{ty:?}> with the byte stream split as {:?}...: {} samples, expected {}; first difference at {:?}", &chunks[..chunks.len().min(6)], got.len(), want.len(), got.iter().zip(want.iter()).position(|(a, b)| a != b)),
                );
            }
            if split_inside {
                ctx.class("split-inside-a-sample");
                ctx.nontrivial();
            }
        }
    }
}

impl Prop for C14 {
    type Case = C14Case;
    fn id(&self) -> &'static str {
        "C14"
    }
    fn strategy(&self, tier: Tier) -> BoxedStrategy<C14Case> {
        let ms = tier.pick(30, 80) as usize;
        let dz = crate::dripcase::drain_sz;
        let codec = (ty_strategy(), prop::collection::vec(any::<u64>(), 1..40)).prop_map(|(ty, bits)| C14Case::Codec { ty, bits });
        let file = (ty_strategy(), prop_oneof![0u32..4, 0u32..3000, 0u32..14000], any::<u32>(), 1u8..4, schedule_strategy(ms), schedule_strategy(ms), dz())
            .prop_map(|(ty, len, seed, pages, sched_a, sched_b, drain)| C14Case::File { ty, len, seed, pages, sched_a, sched_b, drain });
        let sig = (
            sigmf_ty(),
            prop_oneof![0u32..4, 0u32..3000, 0u32..9000],
            any::<u32>(),
            any::<bool>(),
            prop::collection::vec(any::<u8>(), 8),
            0u8..4,
            prop_oneof![6 => Just(0u8), 1 => 1u8..6],
            1u8..4,
            schedule_strategy(ms),
            dz(),
        )
            .prop_map(|(ty, len, seed, archive, order, extras, malform, pages, sched, drain)| C14Case::SigMf { ty, len, seed, archive, order, extras, malform, pages, sched, drain });
        let au = (gen_strategy(9000), 1u8..4, schedule_strategy(ms), schedule_strategy(ms), dz(), dz())
            .prop_map(|(input, pages, sched_a, sched_b, drain_a, drain_b)| C14Case::Au { input, pages, sched_a, sched_b, drain_a, drain_b });
        let chunks = || prop::collection::vec(prop_oneof![3 => 1u16..4, 2 => 1u16..40, 1 => 1u16..5000], 1..12);
        let fifo = (ty_strategy(), prop_oneof![0u32..40, 0u32..6000], any::<u32>(), chunks(), 1u8..3).prop_map(|(ty, len, seed, chunks, pages)| C14Case::Fifo { ty, len, seed, chunks, pages });
        let tcp = (ty_strategy(), prop_oneof![0u32..40, 0u32..6000], any::<u32>(), chunks(), 1u8..3).prop_map(|(ty, len, seed, chunks, pages)| C14Case::Tcp { ty, len, seed, chunks, pages });
        prop_oneof![4 => codec, 8 => file, 8 => sig, 8 => au, 4 => fifo, 1 => tcp].boxed()
    }
    fn cases(&self, tier: Tier) -> u64 {
        tier.pick(8_000, 120_000)
    }
    fn fixed_cases(&self, _tier: Tier) -> Vec<C14Case> {
        let mut v = vec![
            C14Case::AuFile { pages: 1, sched: vec![], drain: Sz::All },
            C14Case::AuFile { pages: 2, sched: vec![Step::Feed { port: 0, k: Sz::Frac(300) }, Step::Work, Step::Work], drain: Sz::Frac(2000) },
        ];
        // 1-byte segmentation for every type
        for ty in [Ty::U8, Ty::U32, Ty::I32, Ty::F32, Ty::C32] {
            v.push(C14Case::Fifo { ty, len: 50, seed: 3, chunks: vec![1], pages: 1 });
            v.push(C14Case::Tcp { ty, len: 50, seed: 3, chunks: vec![1], pages: 1 });
            v.push(C14Case::Tcp { ty, len: 50, seed: 3, chunks: vec![3, 1, 2], pages: 1 });
        }
        v
    }
    fn run(&self, case: &C14Case, ctx: &mut Ctx) {
        let t0 = std::time::Instant::now();
        if std::env::var_os("VERIF_DEBUG").is_some() {
            eprintln!("case {}", serde_json::to_string(case).unwrap().chars().take(300).collect::<String>());
        }
        self.run_inner(case, ctx);
        let kind = match case {
            C14Case::Codec { .. } => "codec",
            C14Case::File { .. } => "file",
            C14Case::SigMf { .. } => "sigmf",
            C14Case::Au { .. } => "au",
            C14Case::AuFile { .. } => "aufile",
            C14Case::Fifo { .. } => "fifo",
            C14Case::Tcp { .. } => "tcp",
        };
        ctx.count(format!("ms:{kind}"), t0.elapsed().as_millis() as u64);
    }
    fn rule(&self) -> String {
        RULE.into()
    }
    fn assumptions(&self) -> Vec<String> {
        vec![
            "FIFO/TCP cases keep at least one byte queued before every work() call (the sources' reads are blocking)".into(),
            "AU streams use the encoder's own header layout (28 bytes, PCM16, mono, 44100 Hz); other headers are C15's".into(),
        ]
    }
}

impl C14 {
    fn run_inner(&self, case: &C14Case, ctx: &mut Ctx) {
        match case {
            C14Case::Codec { ty, bits } => {
                ctx.class("codec");
                with_ty!(*ty, codec, *ty, bits, ctx)
            }
            C14Case::File { ty, len, seed, pages, sched_a, sched_b, drain } => {
                ctx.class("filesink->filesource");
                let bytes = raw_bytes(*ty, *len, *seed);
                with_ty!(*ty, sink_then_source, *ty, &bytes, *pages, sched_a, sched_b, *drain, ctx)
            }
            C14Case::SigMf { ty, len, seed, archive, order, extras, malform, pages, sched, drain } => {
                ctx.class(if *archive { "sigmf-archive" } else { "sigmf-recording" });
                let bytes = raw_bytes(*ty, *len, *seed);
                match ty {
                    Ty::U8 => sigmf::<u8>(*ty, &bytes, *archive, order, *extras, *malform, *pages, sched, *drain, ctx),
                    Ty::I32 => sigmf::<i32>(*ty, &bytes, *archive, order, *extras, *malform, *pages, sched, *drain, ctx),
                    Ty::F32 => sigmf::<f32>(*ty, &bytes, *archive, order, *extras, *malform, *pages, sched, *drain, ctx),
                    Ty::C32 => sigmf::<Complex>(*ty, &bytes, *archive, order, *extras, *malform, *pages, sched, *drain, ctx),
                    Ty::U32 => ctx.skip("no SigMF datatype for u32"),
                }
            }
            C14Case::Au { input, pages, sched_a, sched_b, drain_a, drain_b } => {
                ctx.class("au-encode->decode");
                au_roundtrip(input, *pages, sched_a, sched_b, *drain_a, *drain_b, ctx)
            }
            C14Case::AuFile { pages, sched, drain } => {
                ctx.class("au-recording");
                ctx.nontrivial();
                let Ok(bytes) = std::fs::read("/repo/testdata/aprs.au") else {
                    ctx.skip("testdata/aprs.au not readable");
                    return;
                };
                let off = u32::from_be_bytes([bytes[4], bytes[5], bytes[6], bytes[7]]) as usize;
                let pcm: Vec<i16> = bytes[off..].chunks_exact(2).map(|c| i16::from_be_bytes([c[0], c[1]])).collect();
                decode_and_compare(&bytes, &pcm, *pages, sched, *drain, "testdata/aprs.au", ctx);
            }
            C14Case::Fifo { ty, len, seed, chunks, pages } => {
                ctx.class("fifo-segmentation");
                let bytes = raw_bytes(*ty, *len, *seed);
                with_ty!(*ty, fifo, *ty, &bytes, chunks, *pages, ctx)
            }
            C14Case::Tcp { ty, len, seed, chunks, pages } => {
                ctx.class("tcp-segmentation");
                let bytes = raw_bytes(*ty, *len, *seed);
                with_ty!(*ty, tcp, *ty, &bytes, chunks, *pages, ctx)
            }
        }
    }
}

const RULE: &str = "generated: (a) Sample::parse/serialize/size on raw bit patterns for u8,u32,i32,f32,Complex; (b) FileSink(Overwrite) -> file -> FileSource for every type, onto a fresh path or over an older, longer or shorter file, 0..14k samples of arbitrary bit patterns, both sides under drip schedules on 1-3 page streams; (c) SigMFSource on recording pairs and on tar archives whose members (meta, data, up to 3 unrelated members - plain files, directories, symbolic and hard links, fifos, pax global headers; every third archive with member paths longer than 100 bytes) are written in a generated order, plus malformed variants (two metas, missing/duplicate data, wrong datatype, garbage meta) that must be rejected with Err; (d) AuEncode -> AuDecode on x in [-1,1] (and some saturating values) under drip schedules on both blocks, and AuDecode on the repository's testdata/aprs.au; (e) read segmentation: FileSource on a FIFO and TcpSource on a loopback connection whose writer releases generated chunk sizes (1-byte chunks and splits inside a sample included; the harness paces on FIONREAD / TIOCOUTQ so the single-threaded blocking reads always find data). On the FIFO the source must not report a wait on its (empty) output while more data can come. Oracle: independent little-endian / big-endian PCM16 readers of the same bytes; exact sample sequences and counts (trailing partial sample dropped); encoder bytes == documented 28-byte header + PCM16. Non-trivial: a split inside a sample, or a stream longer than one capacity, or an archive with >= 3 members in non-canonical order, or a malformed container; distinct = hash of the case.";
