//! C07 — runners stop on cancellation and report block failures as errors.
use std::sync::atomic::Ordering;
use std::sync::{Arc, Mutex};

use proptest::prelude::*;
use rustradio::graph::{Graph, GraphRunner};
use rustradio::mtgraph::MTGraph;
use serde::{Deserialize, Serialize};

use crate::engine::{Ctx, Prop, Tier, loc_file};
use crate::graphgen::*;
use crate::sched::*;

pub struct C07;

#[derive(Clone, Debug, Serialize, Deserialize, PartialEq)]
pub enum Fault {
    /// cancel after this many scheduling points of the canceller task
    Cancel { delay: u16 },
    /// block at position `pos` (mod n) fails on its k-th work() call
    Fail { pos: u8, k: u8 },
    /// both at once: the failing call passes `slow` scheduling points before it returns,
    /// and a canceller cancels after `delay` of its own
    Both { delay: u16, pos: u8, k: u8, slow: u8 },
    /// several blocks fail: block i fails on its k-th call if bit (i mod 16) of `mask` is
    /// set (mask 0xffff: every block)
    FailMany { mask: u16, k: u8 },
}

#[derive(Clone, Debug, Serialize, Deserialize, PartialEq)]
pub struct C07Case {
    pub recipe: Recipe,
    pub mt: bool,
    pub fault: Fault,
    /// replace the first source by an endless one (cancel plans)
    pub endless: bool,
    pub decisions: Vec<u8>,
    /// MTGraph only: (block position, first call, count) - the block answers `Pending` on
    /// these calls, as a block waiting for something outside the graph does
    #[serde(default)]
    pub pending: Option<(u8, u8, u8)>,
    /// cancel plans: cancel() is called (and has returned) before run() is entered
    #[serde(default)]
    pub pre_cancel: bool,
    /// cancel plans: no source block; the application feeds the first stream, wrote a little
    /// and keeps the write end alive and idle outside the graph (blocks starve until cancelled)
    #[serde(default)]
    pub external: bool,
}

/// No runner may ask for one uninterruptible sleep longer than this: the cancellation token
/// is only looked at between sleeps (10 000 times the 1 ms the runner sleeps today).
const MAX_SLEEP_NS: u64 = 10_000_000_000;

#[derive(Default)]
struct Outcome {
    returned: Option<Result<(), String>>,
    calls_after_cancel: Vec<u64>,
    calls: Vec<u64>,
    dropped: Vec<bool>,
    cancel_done: bool,
    failed: bool,
    failed_blocks: Vec<bool>,
    n: usize,
    names: Vec<String>,
}

fn scenario(c: &C07Case, out: Arc<Mutex<Outcome>>) {
    let r = &c.recipe;
    let size = r.pages.max(1) as usize * 4096;
    let endless = c.endless && matches!(c.fault, Fault::Cancel { .. });
    let cancel_delay = match c.fault {
        Fault::Cancel { delay } | Fault::Both { delay, .. } => Some(delay),
        _ => None,
    };
    let external = c.external && matches!(c.fault, Fault::Cancel { .. });
    let mut b = build_src(r, Some(size), if external { 2 } else if endless { 1 } else { 0 });
    if b.blocks.is_empty() {
        return;
    }
    let n = b.blocks.len();
    let shared = Shared::new(n);
    let fail = match c.fault {
        Fault::Fail { pos, k } | Fault::Both { pos, k, .. } => Some((pos as usize % n, k.max(1) as u64)),
        _ => None,
    };
    if let Fault::Both { slow, .. } = c.fault {
        shared.fail_yields.store(slow as u64, Ordering::SeqCst);
    }
    let names = b.names.clone();
    let mut fails: Vec<(usize, u64)> = fail.into_iter().collect();
    if let Fault::FailMany { mask, k } = c.fault {
        let mask = if mask == 0 { 1 } else { mask };
        fails = (0..n).filter(|i| mask >> (i % 16) & 1 == 1).map(|i| (i, k.max(1) as u64)).collect();
    }
    let pending = if c.mt { c.pending.map(|(p, at, cnt)| (p as usize % n, at.max(1) as u64, cnt as u64)) } else { None };
    let blocks = wrap_pending(std::mem::take(&mut b.blocks), &names, &shared, &fails, pending);
    let order = add_order(r, n);
    let mut slots: Vec<Option<Box<dyn rustradio::block::Block + Send>>> = blocks.into_iter().map(Some).collect();
    let mut g: Box<dyn GraphRunner> = if c.mt { Box::new(MTGraph::new()) } else { Box::new(Graph::new()) };
    for i in &order {
        g.add(slots[*i].take().unwrap());
    }
    {
        let mut o = out.lock().unwrap();
        o.n = n;
        o.names = names;
    }
    if cancel_delay.is_some() && c.pre_cancel {
        // "at any moment" includes the moment before run(): a handler that fired early
        g.cancel_token().cancel();
        shared.cancelled.store(true, Ordering::SeqCst);
        out.lock().unwrap().cancel_done = true;
    }
    let canceller = if c.pre_cancel {
        None
    } else if let Some(delay) = cancel_delay {
        let tok = g.cancel_token();
        let sh = shared.clone();
        let o2 = out.clone();
        Some(spawn("canceller", move || {
            for _ in 0..delay {
                hpoint();
            }
            tok.cancel();
            sh.cancelled.store(true, Ordering::SeqCst);
            o2.lock().unwrap().cancel_done = true;
        }))
    } else {
        None
    };
    let res = g.run();
    if let Some(h) = canceller {
        let _ = h.join();
    }
    let mut o = out.lock().unwrap();
    o.returned = Some(res.map_err(|e| format!("{e}")));
    o.calls_after_cancel = shared.calls_after_cancel.iter().map(|a| a.load(Ordering::SeqCst)).collect();
    o.calls = shared.calls.iter().map(|a| a.load(Ordering::SeqCst)).collect();
    o.dropped = shared.dropped.iter().map(|a| a.load(Ordering::SeqCst)).collect();
    o.failed = shared.failed.load(Ordering::SeqCst);
    o.failed_blocks = shared.failed_blocks.iter().map(|a| a.load(Ordering::SeqCst)).collect();
}

static ABANDONED: std::sync::atomic::AtomicUsize = std::sync::atomic::AtomicUsize::new(0);

impl Prop for C07 {
    type Case = C07Case;
    fn id(&self) -> &'static str {
        "C07"
    }
    fn strategy(&self, tier: Tier) -> BoxedStrategy<C07Case> {
        let fault = prop_oneof![
            1 => prop_oneof![Just(0u16), 0u16..30, 0u16..2000].prop_map(|delay| Fault::Cancel { delay }),
            1 => (any::<u8>(), 1u8..7).prop_map(|(pos, k)| Fault::Fail { pos, k }),
            1 => (prop_oneof![0u16..30, 0u16..400], any::<u8>(), 1u8..5, 0u8..6).prop_map(|(delay, pos, k, slow)| Fault::Both { delay, pos, k, slow }),
            1 => (prop_oneof![Just(0xffffu16), any::<u16>()], 1u8..4).prop_map(|(mask, k)| Fault::FailMany { mask, k }),
        ];
        let pending = prop_oneof![2 => Just(None), 1 => (any::<u8>(), 1u8..6, 1u8..30).prop_map(Some)];
        (recipe_strategy(tier.pick(12_000, 30_000) as u32), any::<bool>(), fault, any::<bool>(), decisions_strategy(tier.pick(400, 1500) as usize), pending, (prop::bool::weighted(0.15), prop::bool::weighted(0.25)))
            .prop_map(|(recipe, mt, fault, endless, decisions, pending, (pre_cancel, external))| C07Case { recipe, mt, fault, endless, decisions, pending, pre_cancel, external })
            .boxed()
    }
    fn cases(&self, tier: Tier) -> u64 {
        tier.pick(1_500, 40_000)
    }
    fn run(&self, case: &C07Case, ctx: &mut Ctx) {
        if ABANDONED.load(Ordering::Relaxed) >= 200 {
            ctx.skip("enough abandoned (non-terminating / deadlocked) executions recorded in this run");
            return;
        }
        let out = Arc::new(Mutex::new(Outcome::default()));
        let (c2, o2) = (case.clone(), out.clone());
        let ex = explore(&case.decisions, 3_000_000, move || scenario(&c2, o2.clone()));
        let runner = if case.mt { "MTGraph" } else { "Graph" };
        let o = out.lock().unwrap();
        ctx.class(format!("runner={runner} fault={}", match case.fault { Fault::Cancel { .. } => "cancel", Fault::Fail { .. } => "fail", Fault::Both { .. } => "cancel+fail", Fault::FailMany { .. } => "fail-many" }));
        if ex.step_bound_hit || ex.deadlock {
            ABANDONED.fetch_add(1, Ordering::Relaxed);
        }
        if let Some(pi) = &ex.panic {
            if ex.step_bound_hit {
                if ex.fair_steps > 1_500_000 {
                    ctx.fail(format!("C07/{runner}/no-return"), format!("run() did not return within {} steps ({} fair)", ex.steps, ex.fair_steps));
                } else {
                    ctx.skip("step budget hit under an unfair prefix (inconclusive)");
                }
            } else if ex.deadlock {
                ctx.fail(format!("C07/{runner}/deadlock"), pi.msg.clone());
            } else {
                ctx.fail(
                    format!("C07/{runner}/panic/{}", loc_file(&pi.loc)),
                    format!("{runner}::run() panicked at {}: {} (fault {:?})", pi.loc, pi.msg, case.fault),
                );
            }
            return;
        }
        if case.pre_cancel && matches!(case.fault, Fault::Cancel { .. } | Fault::Both { .. }) {
            ctx.class("cancelled before run() was entered");
        }
        if case.external && matches!(case.fault, Fault::Cancel { .. }) {
            ctx.class("fed from outside the graph: writer alive and idle");
        }
        if case.mt && case.pending.is_some() {
            ctx.class("a block answers Pending for a while");
        }
        if ex.max_sleep_ns > MAX_SLEEP_NS {
            ctx.fail(
                format!("C07/{runner}/uninterruptible-sleep"),
                format!(
                    "a runner thread asked for one sleep of {:.1} s (pending plan {:?}); the cancellation token is not looked at during a sleep, so cancellation is not bounded",
                    ex.max_sleep_ns as f64 / 1e9,
                    case.pending
                ),
            );
            return;
        }
        let Some(ret) = &o.returned else {
            ctx.fail(format!("C07/{runner}/no-return"), "execution ended without run() returning".to_string());
            return;
        };
        if case.mt && o.dropped.iter().any(|d| !*d) {
            // MTGraph::run() joins every block thread before it returns - also when a block failed
            ctx.fail(
                format!("C07/{runner}/threads-not-finished"),
                format!("after run() returned ({:?}), blocks not yet dropped: {:?} (fault {:?})", ret.as_ref().map_err(|e| e.chars().take(40).collect::<String>()), o.dropped, case.fault),
            );
            return;
        }
        match &case.fault {
            Fault::Fail { pos, k } => {
                let p = *pos as usize % o.n.max(1);
                let reached = o.calls.get(p).copied().unwrap_or(0) >= (*k).max(1) as u64;
                if !reached {
                    // the block never got to its k-th call: nothing was injected
                    ctx.class("failure-not-reached");
                    if ret.is_err() {
                        ctx.fail(format!("C07/{runner}/spurious-error"), format!("run() returned {ret:?} although no failure was injected"));
                    }
                    return;
                }
                if p != 0 && p + 1 != o.n {
                    ctx.nontrivial();
                }
                match ret {
                    Ok(()) => ctx.fail(
                        format!("C07/{runner}/failure-reported-as-success"),
                        format!("block #{p} ({}) failed on its call #{k}, but run() returned Ok", o.names[p]),
                    ),
                    Err(e) if !e.contains(&format!("injected#{p}")) => ctx.fail(
                        format!("C07/{runner}/wrong-error"),
                        format!("block #{p} failed with 'injected#{p}', run() returned a different error: {e}"),
                    ),
                    Err(_) => {}
                }
            }
            Fault::FailMany { .. } => {
                let who: Vec<usize> = o.failed_blocks.iter().enumerate().filter(|(_, f)| **f).map(|(i, _)| i).collect();
                if who.is_empty() {
                    ctx.class("failure-not-reached");
                    if ret.is_err() {
                        ctx.fail(format!("C07/{runner}/spurious-error"), format!("run() returned {ret:?} although no failure was injected"));
                    }
                    return;
                }
                if who.len() >= 2 {
                    ctx.nontrivial();
                    ctx.class("fail-many: >= 2 blocks failed");
                }
                if who.len() == o.n {
                    ctx.class("fail-many: every block failed");
                }
                match ret {
                    Ok(()) => ctx.fail(
                        format!("C07/{runner}/failure-reported-as-success"),
                        format!("blocks {who:?} failed, but run() returned Ok"),
                    ),
                    Err(e) if !who.iter().any(|p| e.contains(&format!("injected#{p}"))) => ctx.fail(
                        format!("C07/{runner}/wrong-error"),
                        format!("blocks {who:?} failed with 'injected#<i>', run() returned a different error: {e}"),
                    ),
                    Err(_) => {}
                }
            }
            Fault::Both { pos, k, .. } => {
                let p = *pos as usize % o.n.max(1);
                if o.failed {
                    ctx.class("cancel+fail: failure injected");
                    if o.cancel_done {
                        ctx.nontrivial();
                    }
                    match ret {
                        Ok(()) => ctx.fail(
                            format!("C07/{runner}/failure-reported-as-success"),
                            format!("block #{p} ({}) failed on its call #{k} (cancellation requested concurrently: {}), but run() returned Ok", o.names[p], o.cancel_done),
                        ),
                        Err(e) if !e.contains(&format!("injected#{p}")) => ctx.fail(
                            format!("C07/{runner}/wrong-error"),
                            format!("block #{p} failed with 'injected#{p}', run() returned a different error: {e}"),
                        ),
                        Err(_) => {}
                    }
                } else {
                    ctx.class("cancel+fail: cancelled before the failure");
                    if let Err(e) = ret {
                        ctx.fail(format!("C07/{runner}/spurious-error"), format!("run() returned Err({e}) although no failure was injected"));
                    }
                }
                for (i, c) in o.calls_after_cancel.iter().enumerate() {
                    if *c > 1 {
                        ctx.fail(
                            format!("C07/{runner}/work-calls-after-cancel"),
                            format!("block #{i} ({}) had {c} work() calls started after cancel() had returned (bound: 1)", o.names[i]),
                        );
                    }
                }
            }
            Fault::Cancel { .. } => {
                if let Err(e) = ret {
                    ctx.fail(format!("C07/{runner}/cancel-returned-error"), format!("run() returned an error after cancellation: {e}"));
                }
                for (i, c) in o.calls_after_cancel.iter().enumerate() {
                    if *c > 1 {
                        ctx.fail(
                            format!("C07/{runner}/work-calls-after-cancel"),
                            format!("block #{i} ({}) had {c} work() calls started after cancel() had returned (bound: 1)", o.names[i]),
                        );
                    }
                }
                if case.mt && o.dropped.iter().any(|d| !*d) {
                    ctx.fail(format!("C07/{runner}/threads-not-finished"), format!("after run() returned, blocks not yet dropped: {:?}", o.dropped));
                }
                if o.cancel_done && o.calls.iter().any(|c| *c > 0) {
                    ctx.nontrivial();
                }
            }
        }
    }
    fn rule(&self) -> String {
        "generated: both runners x graph recipe (as C06) x fault plan: cancel, fail, several failing blocks (up to every block of the graph), or cancel and fail at once (the failing call passes 0-5 scheduling points before it returns while the canceller runs: a failure must be reported even if cancellation was requested during the failing call); cancel (a canceller task calls cancel() after d of its own scheduling points: during work calls, while everybody waits; in 15% of the cancel plans cancel() has returned before run() is entered; in a quarter of them the graph has no source block: the application feeds the first stream, wrote a little and keeps the write end alive and idle outside the graph, so the blocks starve until cancelled) or fail (a wrapper block at a generated position returns Err('injected#p') on its k-th call, k in 1..6) x scheduler decision stream; run() executes on the shuttle runtime (for Graph too, so that the canceller interleaves at every stream lock). Oracle: cancel => run() returns, returns Ok, per block at most 1 work() call started after cancel() had returned, and (MTGraph) every block has been dropped; fail => run() returns Err whose text contains the injected marker; a panic, Ok, a different error or non-return is a violation. Non-trivial: the failing block is neither first nor last, or the cancellation landed after blocks had started working; distinct = hash of (recipe, fault, decisions).".into()
    }
    fn assumptions(&self) -> Vec<String> {
        vec![
            "bounded liveness (timed waits return after <= 3 yields)".into(),
            "if the failing block never reaches its k-th call nothing is injected and run() must succeed".into(),
        ]
    }
}
