//! C20 — end to end: the documented receive chains decode every clean AX.25 frame.
use proptest::prelude::*;
use rustradio::Complex;
use rustradio::block::Block;
use rustradio::blocks::*;
use rustradio::graph::{Graph, GraphRunner};
use rustradio::mtgraph::MTGraph;
use rustradio::stream::NCReadStream;
use rustradio::window::WindowType;
use serde::{Deserialize, Serialize};

use crate::engine::{Ctx, Prop, Tier, catch, loc_file};
use crate::props::c13::FrameSpec;
use crate::refmodel::*;

pub struct C20;

#[derive(Clone, Debug, Serialize, Deserialize, PartialEq)]
pub struct C20Case {
    /// 0: 1200 baud Bell-202 AFSK audio; 1: 9600 baud G3RUH 2-FSK complex baseband
    pub chain: u8,
    pub rate_idx: u8,
    pub frames: Vec<FrameSpec>,
    pub preamble_flags: u8,
    /// start phase / 65536 turns
    pub phase: u16,
    /// symbol timing offset / 65536 of a symbol
    pub timing: u16,
    /// amplitude = 0.3 + amp/255 * 0.6; below 32: a quiet signal, 0.004 + amp/32 * 0.03
    pub amp: u8,
    /// streams of 64 KiB instead of the 4 MB default
    pub small_streams: bool,
    /// 0: the transmission is followed by trailing flags (more signal follows);
    /// 1: it ends after the last frame's separating flags and exact digital silence
    ///    follows (squelched receiver, padded recording); 2: as 1, with exactly the closing
    ///    flag and one idle flag after the last frame
    #[serde(default)]
    pub tail: u8,
    /// samples of exact silence before the transmission (tail != 0 only)
    #[serde(default)]
    pub lead_silence: u16,
}
const TAIL_SILENCE: usize = 16_000;

const RATES_1200: [f32; 3] = [44100.0, 48000.0, 50000.0];
const RATES_9600: [f32; 2] = [50000.0, 100000.0];

fn frame_strategy() -> impl Strategy<Value = FrameSpec> {
    (prop_oneof![10u16..40, 10u16..301], 0u8..6, any::<u32>(), 2u8..5).prop_map(|(len, pat, seed, sep_flags)| FrameSpec { len, pat, seed, sep_flags, idle_ones: 0 })
}

fn case_strategy() -> BoxedStrategy<C20Case> {
    (
        0u8..2,
        0u8..3,
        prop::collection::vec(frame_strategy(), 1..9),
        20u8..101,
        any::<u16>(),
        any::<u16>(),
        any::<u8>(),
        prop::bool::weighted(0.3),
        (prop_oneof![3 => Just(0u8), 1 => Just(1u8), 2 => Just(2u8)], 0u16..8192),
    )
        .prop_map(|(chain, rate_idx, frames, preamble_flags, phase, timing, amp, small_streams, (tail, lead_silence))| C20Case {
            chain,
            rate_idx,
            frames,
            preamble_flags,
            phase,
            timing,
            amp,
            small_streams,
            tail,
            lead_silence,
        })
        .boxed()
}

pub fn rate_of(c: &C20Case) -> f32 {
    if c.chain % 2 == 0 { RATES_1200[c.rate_idx as usize % 3] } else { RATES_9600[c.rate_idx as usize % 2] }
}

/// HDLC bit stream of the whole transmission (before line coding).
pub fn tx_bits(c: &C20Case) -> Vec<u8> {
    let mut bits = Vec::new();
    for _ in 0..c.preamble_flags.max(20) {
        bits.extend(FLAG_BITS);
    }
    for (i, f) in c.frames.iter().enumerate() {
        bits.extend(hdlc_stuffed_bits(&hdlc_with_fcs(&f.payload())));
        let sep = if c.tail == 2 && i + 1 == c.frames.len() { 2 } else { f.sep_flags.max(2) };
        for _ in 0..sep {
            bits.extend(FLAG_BITS);
        }
    }
    if c.tail != 0 {
        return bits;
    }
    // trailing flags: the chains have no end-of-input flush (FftFilter keeps a partial
    // block), so a frame is only delivered if more signal follows it
    let trailing = if c.chain % 2 == 0 { 40 } else { 300 };
    for _ in 0..trailing {
        bits.extend(FLAG_BITS);
    }
    bits
}

/// Signal level: mostly 0.3-0.9 of full scale; one case in eight is a quiet recording
/// (0.004-0.034, i.e. -48 to -29 dBFS): an FM receiver discards the magnitude.
fn amplitude(c: &C20Case) -> f64 {
    if c.amp < 32 { 0.004 + c.amp as f64 / 32.0 * 0.03 } else { 0.3 + c.amp as f64 / 255.0 * 0.6 }
}

/// Sample n belongs to symbol floor((n/sr - tau) * baud); tau in [0, 1/baud).
fn symbol_of(n: usize, sr: f64, baud: f64, timing: u16) -> Option<usize> {
    let t = n as f64 / sr * baud - timing as f64 / 65536.0;
    if t < 0.0 { None } else { Some(t as usize) }
}

/// Bell-202 continuous-phase AFSK: NRZI line level 1 -> 1200 Hz, 0 -> 2200 Hz.
pub fn afsk_1200(c: &C20Case) -> Vec<f32> {
    let sr = rate_of(c) as f64;
    let line = nrzi_encode(&tx_bits(c), 1);
    let amp = amplitude(c);
    let mut phase = c.phase as f64 / 65536.0 * std::f64::consts::TAU;
    let n_samples = ((line.len() + 1) as f64 * sr / 1200.0) as usize;
    let mut out = Vec::with_capacity(n_samples);
    for n in 0..n_samples {
        let level = symbol_of(n, sr, 1200.0, c.timing).and_then(|k| line.get(k).copied()).unwrap_or(1);
        let f = if level == 1 { 1200.0 } else { 2200.0 };
        phase += std::f64::consts::TAU * f / sr;
        if phase > std::f64::consts::TAU {
            phase -= std::f64::consts::TAU;
        }
        out.push((amp * phase.cos()) as f32);
    }
    if c.tail != 0 {
        let mut v = vec![0.0f32; c.lead_silence as usize];
        v.extend(out);
        v.extend(std::iter::repeat(0.0f32).take(TAIL_SILENCE));
        return v;
    }
    out
}

/// G3RUH: scramble (x^17+x^12+1), NRZI, continuous-phase 2-FSK +-3 kHz, complex baseband.
pub fn fsk_9600(c: &C20Case) -> Vec<Complex> {
    let sr = rate_of(c) as f64;
    let line = nrzi_encode(&g3ruh_scramble(&tx_bits(c)), 1);
    let amp = amplitude(c);
    let mut phase = c.phase as f64 / 65536.0 * std::f64::consts::TAU;
    let n_samples = ((line.len() + 1) as f64 * sr / 9600.0) as usize;
    let mut out = Vec::with_capacity(n_samples);
    for n in 0..n_samples {
        let level = symbol_of(n, sr, 9600.0, c.timing).and_then(|k| line.get(k).copied()).unwrap_or(1);
        let f = if level == 1 { 3000.0 } else { -3000.0 };
        phase += std::f64::consts::TAU * f / sr;
        if phase > std::f64::consts::PI {
            phase -= std::f64::consts::TAU;
        } else if phase < -std::f64::consts::PI {
            phase += std::f64::consts::TAU;
        }
        out.push(Complex::new((amp * phase.cos()) as f32, (amp * phase.sin()) as f32));
    }
    if c.tail != 0 {
        let mut v = vec![Complex::default(); c.lead_silence as usize];
        v.extend(out);
        v.extend(std::iter::repeat(Complex::default()).take(4 * TAIL_SILENCE));
        return v;
    }
    out
}

type Blocks = Vec<Box<dyn Block + Send>>;

/// examples/ax25-1200-rx.rs, audio path, default options.
pub fn chain_1200(audio: Vec<f32>, sr: f32, fix_bits: bool) -> (Blocks, NCReadStream<Vec<u8>>) {
    let mut g: Blocks = Vec::new();
    macro_rules! add {
        ($e:expr) => {{
            let (b, o) = $e;
            g.push(Box::new(b));
            o
        }};
    }
    let prev = add!(VectorSource::new(audio));
    let prev = add!(Hilbert::new(prev, 65, &WindowType::Hamming));
    let prev = add!(QuadratureDemod::new(prev, 1.0));
    let taps = rustradio::fir::low_pass(sr, 1100.0, 100.0, &WindowType::Hamming);
    let prev = add!(FftFilterFloat::new(prev, &taps));
    let center = 1200.0 + (2200.0 - 1200.0) / 2.0;
    let prev = add!(add_const(prev, -center * 2.0 * std::f32::consts::PI / sr));
    let prev = add!(SymbolSync::new(
        prev,
        sr / 1200.0,
        0.5,
        Box::new(rustradio::symbol_sync::TedZeroCrossing::new()),
        Box::new(rustradio::iir_filter::IirFilter::new(&[0.5, 0.5])),
    ));
    let prev = add!(BinarySlicer::new(prev));
    let prev = add!(NrziDecode::new(prev));
    let (mut hdlc, out) = HdlcDeframer::new(prev, 10, 1500);
    // the receiver's documented `--fix_bits` option: clean frames come out the same with it
    if fix_bits {
        hdlc.set_fix_bits(true);
    }
    g.push(Box::new(hdlc));
    (g, out)
}

/// examples/ax25-9600-rx.rs with the zero-crossing clock recovery block.
pub fn chain_9600(iq: Vec<Complex>, sr: f32, g3ruh_ctor: bool) -> (Blocks, NCReadStream<Vec<u8>>) {
    let mut g: Blocks = Vec::new();
    macro_rules! add {
        ($e:expr) => {{
            let (b, o) = $e;
            g.push(Box::new(b));
            o
        }};
    }
    let prev = add!(VectorSource::new(iq));
    let taps = rustradio::fir::low_pass_complex(sr, 12_500.0, 100.0, &WindowType::Hamming);
    let prev = add!(FftFilter::new(prev, &taps));
    let prev = add!(RationalResampler::new(prev, 50_000, sr as usize).expect("resampler"));
    let prev = add!(QuadratureDemod::new(prev, 1.0));
    let prev = add!(ZeroCrossing::new(prev, 50_000.0 / 9600.0, 0.1));
    let prev = add!(BinarySlicer::new(prev));
    let prev = add!(NrziDecode::new(prev));
    // the named constructor and the explicit G3RUH parameters are the same descrambler
    let prev = if g3ruh_ctor { add!(Descrambler::new_g3ruh(prev)) } else { add!(Descrambler::new(prev, 0x21, 0, 16)) };
    let (hdlc, out) = HdlcDeframer::new(prev, 10, 1500);
    g.push(Box::new(hdlc));
    (g, out)
}

fn build_chain(c: &C20Case) -> (Blocks, NCReadStream<Vec<u8>>) {
    rustradio::verif::set_stream_size(if c.small_streams { Some(65536) } else { None });
    let r = if c.chain % 2 == 0 { chain_1200(afsk_1200(c), rate_of(c), c.phase % 4 >= 2) } else { chain_9600(fsk_9600(c), rate_of(c), c.phase % 2 == 1) };
    rustradio::verif::set_stream_size(None);
    r
}

fn pop_all(o: &NCReadStream<Vec<u8>>) -> Vec<Vec<u8>> {
    let mut v = Vec::new();
    while let Some((p, _)) = o.pop() {
        v.push(p);
    }
    v
}

/// One case in four ends, as the documented receivers do, in a `PduWriter` (one file per
/// frame in a directory) instead of the harness popping the deframer's output.
pub fn uses_pdu_writer(c: &C20Case) -> bool {
    c.timing % 4 == 0
}

pub fn run_on(c: &C20Case, mt: bool) -> Result<Vec<Vec<u8>>, String> {
    let (blocks, out) = build_chain(c);
    let mut g: Box<dyn GraphRunner> = if mt { Box::new(MTGraph::new()) } else { Box::new(Graph::new()) };
    for b in blocks {
        g.add(b);
    }
    let sc = crate::drip::Scratch::new();
    let dir = sc.path("pdus");
    let out = if uses_pdu_writer(c) {
        std::fs::create_dir(&dir).map_err(|e| format!("harness: {e}"))?;
        g.add(Box::new(rustradio::blocks::PduWriter::<u8>::new(out, dir.clone())));
        None
    } else {
        Some(out)
    };
    match catch(|| g.run()) {
        Err(pi) => Err(format!("panic at {}: {}", loc_file(&pi.loc), pi.msg)),
        Ok(Err(e)) => Err(format!("run() error: {e}")),
        Ok(Ok(())) => match out {
            Some(out) => Ok(pop_all(&out)),
            None => {
                // files are named by their time of writing: numeric order is delivery order
                let mut names: Vec<(u128, std::path::PathBuf)> = Vec::new();
                for e in std::fs::read_dir(&dir).map_err(|e| format!("harness: {e}"))? {
                    let e = e.map_err(|e| format!("harness: {e}"))?;
                    let n = e.file_name().to_string_lossy().parse::<u128>().unwrap_or(u128::MAX);
                    names.push((n, e.path()));
                }
                names.sort();
                names.iter().map(|(_, p)| std::fs::read(p).map_err(|e| format!("harness: {e}"))).collect()
            }
        },
    }
}

impl Prop for C20 {
    type Case = C20Case;
    fn id(&self) -> &'static str {
        "C20"
    }
    fn strategy(&self, _tier: Tier) -> BoxedStrategy<C20Case> {
        case_strategy()
    }
    fn cases(&self, tier: Tier) -> u64 {
        tier.pick(400, 6_000)
    }
    fn fixed_cases(&self, _tier: Tier) -> Vec<C20Case> {
        // the longest transmissions of the domain: 8 frames of 300 bytes (about 20 000 HDLC
        // bits reach the deframer, under the single-threaded runner in very few calls)
        let mut v = Vec::new();
        for chain in 0..2u8 {
            for (rate_idx, tail) in [(0u8, 0u8), (1, 2)] {
                v.push(C20Case {
                    chain,
                    rate_idx,
                    frames: (0..8u32).map(|i| FrameSpec { len: 300, pat: (i % 6) as u8, seed: 1000 + i, sep_flags: 2, idle_ones: 0 }).collect(),
                    preamble_flags: 30,
                    phase: 12345,
                    timing: 23456,
                    amp: 128,
                    small_streams: false,
                    tail,
                    lead_silence: 1000,
                });
            }
        }
        v
    }
    fn exhaustive_subdomains(&self) -> Vec<String> {
        vec!["longest transmissions: 8 frames x 300 bytes on both chains (trailing flags and silence tail)".into()]
    }
    fn run(&self, c: &C20Case, ctx: &mut Ctx) {
        // the arguments of the library's log statements are evaluated too (the default no-op
        // logger discards the records): a log statement must not change what a block does
        log::set_max_level(log::LevelFilter::Trace);
        let chain = if c.chain % 2 == 0 { "1200-afsk" } else { "9600-g3ruh" };
        let sr = rate_of(c);
        ctx.class(format!("chain={chain} rate={sr}"));
        ctx.class(["tail=flags", "tail=silence", "tail=closing+1-flag+silence"][c.tail.min(2) as usize].to_string());
        if uses_pdu_writer(c) {
            ctx.class("sink=PduWriter (one file per frame)");
        }
        if c.amp < 32 {
            ctx.class("quiet signal (below -29 dBFS)");
        }
        let want: Vec<Vec<u8>> = c.frames.iter().map(|f| f.payload()).collect();
        let non_integer_sps = (sr / if c.chain % 2 == 0 { 1200.0 } else { 9600.0 }).fract() != 0.0;
        if want.iter().any(|p| p.len() >= 100) || want.len() >= 3 || non_integer_sps {
            ctx.nontrivial();
        }
        let mut results = Vec::new();
        for mt in [false, true] {
            let runner = if mt { "MTGraph" } else { "Graph" };
            match run_on(c, mt) {
                Err(e) => {
                    ctx.fail(format!("C20/{chain}/{runner}/run-failed"), format!("{runner}: {e}"));
                    return;
                }
                Ok(got) => {
                    if got != want {
                        let missing = want.iter().filter(|p| !got.contains(p)).count();
                        let extra = got.iter().filter(|p| !want.contains(p)).count();
                        let kind = if extra > 0 {
                            "delivered-something-not-transmitted"
                        } else if missing > 0 {
                            "frame-not-decoded"
                        } else {
                            "duplicate-or-reordered"
                        };
                        ctx.fail(
                            format!("C20/{chain}/{kind}"),
                            format!(
                                "{runner}, sample rate {sr}: transmitted {} frames (payload lengths {:?}), delivered {} (lengths {:?}); {missing} missing, {extra} not transmitted",
                                want.len(),
                                want.iter().map(|p| p.len()).collect::<Vec<_>>(),
                                got.len(),
                                got.iter().map(|p| p.len()).collect::<Vec<_>>()
                            ),
                        );
                    }
                    results.push(got);
                }
            }
        }
        if results.len() == 2 && results[0] != results[1] {
            ctx.fail(format!("C20/{chain}/runners-disagree"), format!("Graph delivered {} frames, MTGraph {}", results[0].len(), results[1].len()));
        }
    }
    fn rule(&self) -> String {
        "generated: 1-8 frames with payloads of 10-300 bytes (random and stuffing-heavy), >= 2 flags between frames, 20-100 preamble flags, framed by the independent HDLC framer, then (a) NRZI -> Bell-202 continuous-phase AFSK (1200/2200 Hz) real audio at 44100/48000/50000 Hz or (b) G3RUH scrambler -> NRZI -> continuous-phase 2-FSK +-3 kHz complex baseband at 50000/100000 Hz, with generated start phase, sub-sample symbol timing offset and amplitude 0.3-0.9 (one case in eight: a quiet signal at 0.004-0.034 of full scale), followed either by trailing flags (the chains have no end-of-input flush) or - half of the cases - by exact digital silence (16 000 / 64 000 zero samples, with 0-8191 samples of silence in front) right after the last frame's separating flags, in a third of all cases after exactly the closing flag plus one idle flag; fed through the receive chains assembled from library blocks with the examples' parameters (1200: Hilbert(65) -> QuadratureDemod -> FftFilterFloat(low_pass 1100/100) -> add_const(-center) -> SymbolSync(0.5, [0.5,0.5]) -> BinarySlicer -> NrziDecode -> HdlcDeframer(10,1500), in half of the cases with the receiver's --fix_bits option (set_fix_bits(true)); 9600: FftFilter(low_pass 12500/100) -> RationalResampler(50k) -> QuadratureDemod -> ZeroCrossing -> BinarySlicer -> NrziDecode -> Descrambler(0x21,0,16) or Descrambler::new_g3ruh -> HdlcDeframer(10,1500)) on Graph and on MTGraph (real threads), with 4 MB or 64 KiB streams; in one case of four the chain ends, as the documented receivers do, in a PduWriter and the delivered frames are the files of its directory in the order of their (time-of-writing) names. Oracle: delivered packets == transmitted payloads, each exactly once, in order, identical bytes, nothing else, same on both runners. Non-trivial: a frame >= 100 bytes, or >= 3 frames, or non-integer samples per symbol; distinct = hash of the case.".into()
    }
    fn assumptions(&self) -> Vec<String> {
        vec![
            "the 9600-baud chain uses the ZeroCrossing block (the property's 'zero-crossing clock recovery'), not the example's literal SymbolSync(IirFilter[0.0001, 0.99999999])".into(),
            "a frame counts as transmitted 'with more stream following': >= 40 (1200 baud) / 300 (9600 baud) trailing flags, or the closing flag, >= 1 idle flag and 16 000 / 64 000 samples of silence, because FftFilter never flushes its last partial block (30 000 generated silence-tail cases decoded completely on the unchanged tree before the mode was enabled)".into(),
            "noiseless, constant-amplitude signals without frequency offset".into(),
            "PduWriter cases (one in four): files are named by the microsecond of their writing; consecutive files of one writer get distinct names because each costs an open/write/close (the only place where the wall clock enters an oracle)".into(),
        ]
    }
}
