//! C01 — streams deliver exactly the committed samples, once, in order.
use proptest::prelude::*;

use crate::engine::{Ctx, Prop, Tier};
use crate::ring::*;

pub struct C01;

impl Prop for C01 {
    type Case = RingCase;
    fn id(&self) -> &'static str {
        "C01"
    }
    fn strategy(&self, tier: Tier) -> BoxedStrategy<RingCase> {
        ring_case_strategy(false, tier.pick(120, 200) as usize)
    }
    fn cases(&self, tier: Tier) -> u64 {
        tier.pick(8_000, 200_000)
    }
    fn fixed_cases(&self, _tier: Tier) -> Vec<RingCase> {
        // set-up table: every element kind x every size (valid and invalid), both constructors,
        // followed by a short wrap-forcing history.
        let mut v = Vec::new();
        let ops = vec![
            Op::Write { fill: Sz::All, commit: Sz::AllM1, tags: vec![] },
            Op::Read { consume: Sz::AllM1 },
            Op::Write { fill: Sz::All, commit: Sz::All, tags: vec![] },
            Op::Read { consume: Sz::One },
            Op::Write { fill: Sz::All, commit: Sz::All, tags: vec![] },
            Op::Read { consume: Sz::All },
        ];
        for elem in [
            ElemKind::U8, ElemKind::U16, ElemKind::U32, ElemKind::U64, ElemKind::B16,
            ElemKind::F32, ElemKind::C32, ElemKind::B3, ElemKind::B12,
        ] {
            for &size_bytes in GOOD_SIZES.iter().chain(BAD_SIZES.iter()) {
                for via_stream in [false, true] {
                    v.push(RingCase { elem, size_bytes, via_stream, ops: ops.clone(), terminal: None });
                }
            }
        }
        v
    }
    fn exhaustive_subdomains(&self) -> Vec<String> {
        vec!["set-up table: 9 element kinds x 11 buffer sizes (5 page multiples, 6 invalid) x {Buffer::new, new_stream}, each followed by a fixed wrap-forcing history".into()]
    }
    fn run(&self, case: &RingCase, ctx: &mut Ctx) {
        run_ring_case("C01", case, Focus::Samples, ctx);
    }
    fn rule(&self) -> String {
        "generated: element kind x buffer size (1..8 pages) x constructor x op history (Write{fill,commit,tags} / Read{consume} / Peek / Commit0 / Consume0, optional terminal over-commit or over-consume), sizes resolved against the live state (0,1,2,all,all-1,to-wrap-1/+0/+1,fraction). Oracle: VecDeque model compared after every op (read window bit-identical, readable+writable==capacity, free(), total_size()). Non-trivial: a commit crossing the wrap point while the read window is non-empty, or a full buffer at a non-zero offset, or element size >= 8; distinct = hash of the case.".into()
    }
    fn assumptions(&self) -> Vec<String> {
        vec![
            "single-threaded histories (interleavings are C03); write windows are filled through the slice and through both fill shortcuts (fill_from_slice, fill_from_iter with iterators of known and of unknown length)".into(),
            "tags obey the documented contract pos < n".into(),
            "samples are compared as raw bit patterns".into(),
        ]
    }
}
