//! C06 — single-threaded runner returns only at quiescence, with the reference result.
use proptest::prelude::*;
use rustradio::graph::{Graph, GraphRunner};

use crate::catalog::TapSpec;
use crate::engine::{Ctx, Prop, Tier, catch, loc_file};
use crate::gens::Gen;
use crate::graphgen::*;

pub struct C06;

fn permutations(n: usize) -> Vec<Vec<u16>> {
    // all orderings of n blocks as key vectors (padded to 16)
    fn rec(cur: &mut Vec<usize>, used: &mut Vec<bool>, n: usize, out: &mut Vec<Vec<usize>>) {
        if cur.len() == n {
            out.push(cur.clone());
            return;
        }
        for i in 0..n {
            if !used[i] {
                used[i] = true;
                cur.push(i);
                rec(cur, used, n, out);
                cur.pop();
                used[i] = false;
            }
        }
    }
    let mut out = Vec::new();
    rec(&mut Vec::new(), &mut vec![false; n], n, &mut out);
    out.into_iter()
        .map(|perm| {
            // perm[k] = block added k-th  =>  key[block] = k
            let mut keys = vec![1000u16; 16];
            for (k, b) in perm.iter().enumerate() {
                keys[*b] = k as u16;
            }
            keys
        })
        .collect()
}

pub fn diff_sinks(got: &[Vec<u64>], want: &[Vec<u64>]) -> Option<String> {
    for (i, (g, w)) in got.iter().zip(want.iter()).enumerate() {
        if g != w {
            let p = g.iter().zip(w.iter()).position(|(a, b)| a != b);
            return Some(match p {
                Some(p) => format!("sink {i}: first difference at sample {p} ({:#x} vs {:#x}); lengths {} vs {}", g[p], w[p], g.len(), w.len()),
                None => format!("sink {i}: holds {} samples, the reference result has {}", g.len(), w.len()),
            });
        }
    }
    None
}

impl Prop for C06 {
    type Case = Recipe;
    fn id(&self) -> &'static str {
        "C06"
    }
    fn strategy(&self, tier: Tier) -> BoxedStrategy<Recipe> {
        // second family: short chains of blocks that move data and then report a wait
        // (resampler, delay, skip, chunker, FIR, FFT filter) or keep a remainder in their
        // input, added in reverse data-flow order or a random one: the last samples of a run
        // then travel one hop per pass, past blocks that have nothing else to do
        let stage = prop_oneof![
            4 => (1u8..5, 1u8..6).prop_map(|(i, d)| Stage::Resamp(i, d)),
            4 => (2u16..9).prop_map(Stage::Chunk),
            2 => prop_oneof![0u16..4, 0u16..300].prop_map(Stage::Delay),
            2 => prop_oneof![0u16..4, 0u16..300].prop_map(Stage::Skip),
            1 => Just(Stage::Nrzi),
            2 => Just(Stage::ToFloat),
            1 => any::<u8>().prop_map(Stage::XorConst),
            2 => (crate::catalog::tapspec_strategy(6), 1u8..4).prop_map(|(t, d)| Stage::Fir(t, d)),
            1 => crate::catalog::tapspec_strategy(6).prop_map(Stage::FftFloat),
        ];
        let order = prop_oneof![
            2 => Just((0..16u16).map(|i| 60_000 - i * 1000).collect::<Vec<u16>>()),
            1 => prop::collection::vec(any::<u16>(), 16),
        ];
        let tail = (
            crate::gens::gen_strategy(tier.pick(24_000, 60_000) as u32),
            prop::collection::vec(stage, 1..5),
            order,
            1u8..5,
        )
            .prop_map(|(src, pre, order, pages)| {
                // (a stage that does not apply to the current sample type is skipped by the builder)
                // one tail case in three: a source that hands over its data in pieces, some of
                // them empty - a call that answers Again after a mere change of internal state
                let src_pieces: Vec<u16> = if src.seed % 3 == 0 {
                    let mut r = crate::gens::XRng::new(src.seed as u64 ^ 0x91ece);
                    let mut left = src.len.min(20_000);
                    let mut v = Vec::new();
                    while left > 0 && v.len() < 24 {
                        let p = match r.below(4) {
                            0 => 0,
                            1 => 1 + r.below(8) as u32,
                            _ => 1 + r.below(left.min(3000) as u64) as u32,
                        }
                        .min(left);
                        v.push(p as u16);
                        left -= p;
                    }
                    if v.is_empty() { vec![0, 0] } else { v }
                } else {
                    vec![]
                };
                let src = if src_pieces.is_empty() { src } else { Gen { len: src_pieces.iter().map(|x| *x as u32).sum(), ..src } };
                Recipe { src, src2: None, pre, diamond: None, post: vec![], extra_sink: 0, order, pages, src_pieces, pkt: false }
            });
        prop_oneof![1 => recipe_strategy(tier.pick(24_000, 60_000) as u32), 1 => tail].boxed()
    }
    fn cases(&self, tier: Tier) -> u64 {
        tier.pick(12_000, 120_000)
    }
    fn fixed_cases(&self, _tier: Tier) -> Vec<Recipe> {
        let mut v = Vec::new();
        let bases: Vec<(Vec<Stage>, usize)> = vec![
            (vec![Stage::XorConst(1)], 3),
            (vec![Stage::Resamp(3, 2)], 3),
            (vec![Stage::ToFloat, Stage::Fir(TapSpec { n: 5, kind: 3, seed: 1 }, 2)], 4),
            (vec![Stage::Delay(100), Stage::Skip(7), Stage::Nrzi], 5),
            (vec![Stage::Delay(1), Stage::Resamp(3, 1), Stage::Chunk(4)], 5),
            (vec![Stage::Skip(2), Stage::Chunk(3), Stage::Resamp(1, 2)], 5),
        ];
        for (pre, n) in bases {
            for len in [4u32, 100, 5000, 20000] {
                for order in permutations(n) {
                    v.push(Recipe {
                        src: Gen { pat: 0, len, seed: 5 },
                        src2: None,
                        pre: pre.clone(),
                        diamond: None,
                        post: vec![],
                        extra_sink: 0,
                        order,
                        pages: 1,
                        src_pieces: vec![],
                        pkt: false,
                    });
                }
            }
        }
        v
    }
    fn exhaustive_subdomains(&self) -> Vec<String> {
        vec!["add order: all permutations of six chains with 3, 3, 4, 5, 5 and 5 blocks (incl. two chains made only of blocks that move data and then report a wait), for source lengths 4, 100 and around and beyond the stream capacity".into()]
    }
    fn run(&self, r: &Recipe, ctx: &mut Ctx) {
        let mut a = build(r, None);
        let want = match reference_run(&mut a) {
            Ok(w) => w,
            Err(e) => {
                ctx.skip(format!("reference executor: {e}"));
                return;
            }
        };
        drop(a);
        let size = r.pages.max(1) as usize * 4096;
        let b = build(r, Some(size));
        let n = b.blocks.len();
        let order = add_order(r, n);
        let topo = order.windows(2).all(|w| w[0] < w[1]);
        let names = b.names.clone();
        let sinks = b.sinks;
        let mut slots: Vec<Option<Box<dyn rustradio::block::Block + Send>>> = b.blocks.into_iter().map(Some).collect();
        let mut g = Graph::new();
        for i in &order {
            g.add(slots[*i].take().unwrap());
        }
        let res = catch(|| g.run());
        let got: Vec<Vec<u64>> = sinks.iter().map(|s| s.contents()).collect();
        drop(g);
        ctx.class(format!("blocks={n}"));
        if !topo {
            ctx.class("add-order-not-topological");
        }
        let big = want.iter().any(|w| w.len() > size / 4);
        if !topo || big || a_has_wap(r) {
            ctx.nontrivial();
        }
        match res {
            Err(pi) => ctx.fail(
                format!("C06/panic/{}", loc_file(&pi.loc)),
                format!("Graph::run() panicked at {}: {} (blocks {names:?}, add order {order:?})", pi.loc, pi.msg),
            ),
            Ok(Err(e)) => ctx.fail("C06/run-error".to_string(), format!("Graph::run() returned an error: {e} (blocks {names:?})")),
            Ok(Ok(())) => {
                if let Some(d) = diff_sinks(&got, &want) {
                    let kind = if got.iter().zip(want.iter()).all(|(g, w)| g.len() <= w.len() && g[..] == w[..g.len()]) {
                        "returned-with-data-in-flight"
                    } else {
                        "wrong-data"
                    };
                    ctx.fail(
                        format!("C06/{kind}"),
                        format!("Graph::run() returned Ok; {d}; blocks {names:?} added in order {order:?}, stream size {size}"),
                    );
                }
            }
        }
    }
    fn rule(&self) -> String {
        "generated: graph recipe over the block library (VectorSource [x2 -> Xor] -> stages from {XorConst, NrziDecode, Descrambler, Delay, Skip, RationalResampler, Map u8->f32, BinarySlicer, AddConst, MultiplyConst, FirFilter(+deci), SinglePoleIirFilter, HdlcDeframer->VecToStream} -> optional diamond Tee -> two balanced branches -> Xor/Add -> stages -> 1-2 sinks incl. NullSink), source lengths 0..24k (thorough 60k) samples, stream sizes 1-4 pages, generated add order (all permutations enumerated for six small chains); half of the generated cases come from a second family: a source and 1-4 stages biased to blocks that move data and then report a wait or keep a remainder in their input (resampler, chunker, delay, skip, FIR, FFT filter), added in exact reverse data-flow order (2/3) or a random order; a third of these use a source that hands over its data in pieces, some of them empty (a call that answers Again after a mere change of internal state). Oracle: differential against the sequential reference executor (same recipe, 4 MB streams, topological round robin to quiescence): when Graph::run() returns Ok every sink holds exactly the reference sequence. Non-trivial: add order not topological, or a sink result larger than the stream capacity, or a block that reports a wait from a call in which it moved data (sinks, resampler) present; distinct = hash of the recipe.".into()
    }
    fn assumptions(&self) -> Vec<String> {
        vec![
            "diamonds are balanced (rate-preserving branches with look-ahead <= capacity/8): an unbalanced diamond can deadlock on any bounded-buffer process network".into(),
            "the blocks are chunking-invariant (C08), so the reference result is unique".into(),
        ]
    }
}

fn a_has_wap(_r: &Recipe) -> bool {
    // every generated graph ends in VectorSink/NullSink, which report a wait after consuming
    true
}
