//! C03 — one producer thread and one consumer thread can share a stream safely.
use std::sync::atomic::{AtomicU64, Ordering};
use std::sync::{Arc, Mutex};

use proptest::prelude::*;
use rustradio::stream::{StreamWait, Tag, TagValue, new_stream};
use serde::{Deserialize, Serialize};
use serde_json::json;

use crate::engine::{Ctx, Extra, Failure, Prop, Tier, hash_json, loc_file};
use crate::gens::XRng;
use crate::sched::*;

pub struct C03;

#[derive(Clone, Debug, Serialize, Deserialize, PartialEq)]
pub struct C03Case {
    pub pages: u8,
    /// producer plan: (fill, commit) in samples; commit <= fill
    pub produce: Vec<(u16, u16)>,
    /// consumer plan: (need, consume)
    pub consume: Vec<(u16, u16)>,
    /// tag every k-th committed sample (0 = none)
    pub tag_every: u8,
    pub decisions: Vec<u8>,
    /// notification-faithful timed waits (a timeout fires only when nobody else can run)
    #[serde(default)]
    pub faithful: bool,
}

fn case_strategy(max_dec: usize) -> BoxedStrategy<C03Case> {
    let sz = || prop_oneof![0u16..4, 0u16..200, 0u16..1100, Just(1024u16)];
    (
        1u8..3,
        prop::collection::vec((sz(), sz()), 1..14),
        prop::collection::vec((sz(), sz()), 1..14),
        prop_oneof![Just(0u8), 1u8..50],
        decisions_strategy(max_dec),
        any::<bool>(),
    )
        .prop_map(|(pages, produce, consume, tag_every, decisions, faithful)| C03Case { pages, produce, consume, tag_every, decisions, faithful })
        .boxed()
}

fn val(i: u64) -> u32 {
    (i as u32).wrapping_mul(0x9E3779B1) ^ 0xc3c3
}

#[derive(Default)]
struct Registry {
    base: Option<usize>,
    cap: usize,
    /// live windows: (is_write, ring offset, len)
    live: Vec<(bool, usize, usize)>,
    overlaps_in_time: u64,
    fails: Vec<(String, String)>,
    gave_up: bool,
}
impl Registry {
    fn open(&mut self, is_write: bool, ptr: usize, len: usize, wpos_hint: Option<usize>) -> usize {
        if self.base.is_none() {
            // the first window is the producer's, taken at write position 0
            self.base = Some(ptr - wpos_hint.unwrap_or(0) * 4);
        }
        let off = ((ptr - self.base.unwrap()) / 4) % self.cap;
        for (w, o, l) in &self.live {
            if *w != is_write {
                self.overlaps_in_time += 1;
                // ring intervals [off, off+len) and [o, o+l) must be disjoint
                let hit = |a: usize, al: usize, b: usize, bl: usize| -> bool {
                    if al == 0 || bl == 0 {
                        return false;
                    }
                    let d = (b + self.cap - a) % self.cap; // b relative to a
                    d < al || (self.cap - d) % self.cap < bl && d != 0 || (d == 0)
                };
                if hit(off, len, *o, *l) {
                    self.fails.push((
                        "C03/window-overlap".to_string(),
                        format!(
                            "a live {} window [{o}, +{l}) and a new {} window [{off}, +{len}) expose the same ring slots (capacity {})",
                            if *w { "write" } else { "read" },
                            if is_write { "write" } else { "read" },
                            self.cap
                        ),
                    ));
                }
            } else {
                self.fails.push(("C03/two-windows-on-one-side".to_string(), "a second window of the same kind was handed out".to_string()));
            }
        }
        self.live.push((is_write, off, len));
        self.live.len() - 1
    }
    fn close(&mut self, is_write: bool) {
        if let Some(i) = self.live.iter().position(|x| x.0 == is_write) {
            self.live.remove(i);
        }
    }
}

fn scenario(c: &C03Case, reg: Arc<Mutex<Registry>>, totals: Arc<(AtomicU64, AtomicU64)>) {
    let size = c.pages.max(1) as usize * 4096;
    let cap = size / 4;
    rustradio::verif::set_stream_size(Some(size));
    let (ws, rs) = new_stream::<u32>();
    rustradio::verif::set_stream_size(None);
    reg.lock().unwrap().cap = cap;
    let plan = c.produce.clone();
    let tag_every = c.tag_every as u64;
    let (r1, t1) = (reg.clone(), totals.clone());
    let producer = spawn("producer", move || {
        let mut committed: u64 = 0;
        'plan: for (fill, commit) in plan {
            let fill = (fill as usize).min(cap);
            let commit = (commit as usize).min(fill);
            let mut tries = 0;
            loop {
                let free = ws.free();
                if free >= fill {
                    break;
                }
                tries += 1;
                if tries > 400 || ws.wait(fill) {
                    break 'plan; // consumer gone or starving: stop producing
                }
            }
            let mut wb = ws.write_buf().unwrap();
            if wb.len() < fill {
                continue;
            }
            let ptr = wb.slice().as_ptr() as usize;
            r1.lock().unwrap().open(true, ptr, wb.len(), Some((committed % cap as u64) as usize));
            {
                let s = wb.slice();
                for i in 0..fill {
                    s[i] = if i < commit { val(committed + i as u64) } else { 0xdead_0000 + i as u32 };
                    if i % 97 == 0 {
                        hpoint(); // the consumer may run while the window is being filled
                    }
                }
            }
            let mut tags = Vec::new();
            if tag_every > 0 {
                for i in 0..commit as u64 {
                    if (committed + i) % tag_every == 0 {
                        tags.push(Tag::new(i as usize, "i", TagValue::U64(committed + i)));
                    }
                }
            }
            hpoint();
            r1.lock().unwrap().close(true);
            wb.produce(commit, &tags);
            committed += commit as u64;
            t1.0.store(committed, Ordering::SeqCst);
        }
        drop(ws);
    });
    let plan = c.consume.clone();
    let (r2, t2) = (reg.clone(), totals.clone());
    let tag_every_c = tag_every;
    let consumer = spawn("consumer", move || {
        let mut consumed: u64 = 0;
        let mut pi = 0usize;
        let mut rounds = 0;
        loop {
            rounds += 1;
            if rounds > 12_000 {
                // the plan is too slow for the data volume: not a verdict
                r2.lock().unwrap().gave_up = true;
                break;
            }
            let (need, take) = plan[pi % plan.len()];
            pi += 1;
            let need = (need as usize).clamp(1, cap);
            let never = rs.wait(need);
            let (rb, tags) = rs.read_buf().unwrap();
            let ptr = rb.slice().as_ptr() as usize;
            r2.lock().unwrap().open(false, ptr, rb.len(), None);
            let mut bad = None;
            for (i, s) in rb.slice().iter().enumerate() {
                if *s != val(consumed + i as u64) {
                    bad = Some((i, *s));
                    break;
                }
                if i % 131 == 0 {
                    hpoint(); // the producer may run while the window is being read
                }
            }
            if let Some((i, s)) = bad {
                r2.lock().unwrap().fails.push((
                    "C03/data/torn-stale-or-skipped".to_string(),
                    format!("sample {} of the stream read as {s:#x}, producer committed {:#x}", consumed + i as u64, val(consumed + i as u64)),
                ));
                r2.lock().unwrap().close(false);
                return;
            }
            // asking for end-of-stream with the window still in hand is legal (a consumer that
            // holds a partial record): the answer must be "no" while there is data or a writer
            if rounds % 3 == 1 {
                let e = rs.eof();
                if e && !rb.is_empty() {
                    r2.lock().unwrap().fails.push((
                        "C03/eof-with-window-held".to_string(),
                        format!("eof() answered true while a read window of {} samples was held", rb.len()),
                    ));
                }
                hpoint();
            }
            for t in &tags {
                let abs = consumed + t.pos() as u64;
                if t.pos() >= rb.len() || *t.val() != TagValue::U64(abs) {
                    r2.lock().unwrap().fails.push((
                        "C03/tags/on-wrong-sample".to_string(),
                        format!("tag {:?} reported at stream position {abs} (window offset {} of {})", t.val(), t.pos(), rb.len()),
                    ));
                }
            }
            hpoint();
            let k = (take as usize).min(rb.len());
            // a plan that never consumes would never finish: every third round takes everything
            // ... and a plan that crawls switches to taking everything after a while
            let k = if never || rounds > 1500 || (k == 0 && rounds % 3 == 0) { rb.len() } else { k };
            // completeness: over the part that is consumed now, exactly the tags the producer
            // attached (one "i" tag on every tag_every-th sample), each once.  (Tags of the part
            // left in the stream are reported again with the next window.)
            {
                let mut got: Vec<u64> = tags.iter().filter(|t| t.pos() < k).map(|t| consumed + t.pos() as u64).collect();
                got.sort_unstable();
                let want: Vec<u64> = if tag_every_c > 0 { (consumed..consumed + k as u64).filter(|a| a % tag_every_c == 0).collect() } else { Vec::new() };
                if got != want {
                    let missing = want.iter().filter(|a| !got.contains(a)).count();
                    r2.lock().unwrap().fails.push((
                        if missing > 0 { "C03/tags/lost".to_string() } else { "C03/tags/duplicated-or-extra".to_string() },
                        format!(
                            "samples {consumed}..{} are being consumed: tags reported on {:?}, the producer tagged {:?}",
                            consumed + k as u64,
                            &got[..got.len().min(8)],
                            &want[..want.len().min(8)]
                        ),
                    ));
                    r2.lock().unwrap().close(false);
                    return;
                }
            }
            r2.lock().unwrap().close(false);
            rb.consume(k);
            consumed += k as u64;
            t2.1.store(consumed, Ordering::SeqCst);
            if never && rs.eof() {
                break;
            }
            if never && k == 0 {
                break;
            }
        }
    });
    let _ = producer.join();
    let _ = consumer.join();
}

impl Prop for C03 {
    type Case = C03Case;
    fn id(&self) -> &'static str {
        "C03"
    }
    fn strategy(&self, tier: Tier) -> BoxedStrategy<C03Case> {
        case_strategy(tier.pick(150, 400) as usize)
    }
    fn cases(&self, tier: Tier) -> u64 {
        tier.pick(6_000, 150_000)
    }
    fn run(&self, case: &C03Case, ctx: &mut Ctx) {
        let reg = Arc::new(Mutex::new(Registry::default()));
        let totals = Arc::new((AtomicU64::new(0), AtomicU64::new(0)));
        let c = case.clone();
        let (r2, t2) = (reg.clone(), totals.clone());
        let ex = if case.faithful {
            ctx.class("timed waits: notification-faithful");
            explore_faithful(&case.decisions, 400_000, move || scenario(&c, r2.clone(), t2.clone()))
        } else {
            ctx.class("timed waits: time out after 0-3 yields");
            explore(&case.decisions, 400_000, move || scenario(&c, r2.clone(), t2.clone()))
        };
        if ex.timeouts_fired > 0 {
            ctx.class("faithful: a timeout fired as last resort");
        }
        if ex.lost_wakeups > 0 {
            ctx.fail(
                "C03/sched/lost-wakeup".to_string(),
                format!(
                    "{} timed wait(s) slept through the commit/consume that satisfied them: the stream state changed to what the waiter asked for, nobody notified the condition variable between the waiter going to sleep and its timeout (with real threads the waiter sleeps out the whole timeout) [{} steps]",
                    ex.lost_wakeups, ex.steps
                ),
            );
        }
        let reg = reg.lock().unwrap();
        for (sig, msg) in &reg.fails {
            ctx.fail(sig.clone(), format!("{msg} [{} steps, {} pre-emptions]", ex.steps, ex.preemptions));
        }
        if let Some(pi) = &ex.panic {
            if ex.step_bound_hit {
                if ex.fair_steps > 200_000 {
                    ctx.fail("C03/no-termination-under-fair-schedule".to_string(), format!("{} steps, {} fair", ex.steps, ex.fair_steps));
                } else {
                    ctx.skip("step budget hit under an unfair prefix (inconclusive)");
                }
            } else if reg.fails.is_empty() {
                ctx.fail(format!("C03/panic/{}", loc_file(&pi.loc)), format!("execution panicked at {}: {}", pi.loc, pi.msg));
            }
            return;
        }
        let committed = totals.0.load(Ordering::SeqCst);
        let consumed = totals.1.load(Ordering::SeqCst);
        if reg.gave_up {
            ctx.skip("consumer plan exhausted its round budget (inconclusive)");
            return;
        }
        if consumed != committed && reg.fails.is_empty() {
            ctx.fail(
                "C03/data/count".to_string(),
                format!("producer committed {committed} samples and left; the consumer could read {consumed} [{} steps]", ex.steps),
            );
        }
        if reg.overlaps_in_time >= 2 && committed > reg.cap as u64 {
            ctx.class("windows-overlapping-in-time+wrap");
            ctx.nontrivial();
        }
    }
    fn rule(&self) -> String {
        "generated: stream size (1-2 pages of u32), producer plan [(fill k, commit n<=k)], consumer plan [(need, consume m)], tag density, and a scheduler decision stream; producer and consumer are harness tasks using only the public stream API (free, wait, write_buf, produce, read_buf, consume, eof) with extra scheduling points while a window is being filled/read. One case = one execution on the shuttle runtime through the verif sync shim; in half of the cases timed waits time out after 0-3 yields whatever happens, in the other half they are notification-faithful (the waiter sleeps until the condition variable is notified, its timeout fires only when every runnable task sleeps in such a wait) and a wait that ends by timeout and then finds its request satisfied without any notification since it went to sleep is a lost wake-up (waits are not atomic with commits). Oracle (history invariant): every read window shows exactly the next committed values (nothing torn, stale, duplicated, skipped), tags sit on their samples and, over every consumed stretch, are exactly the producer's (none lost, none twice), totals match after the producer left; every window acquisition is checked against all live windows of the other side for disjointness in ring coordinates (pointer -> ring offset). A real-thread run (std primitives, two OS threads, 4e5 / 2e7 samples through a 1-page stream) checks the data and that free() <= window <= free() around every window acquisition of the producer. Non-trivial: >= 2 window acquisitions while a window of the other side was live, and the stream wrapped; distinct = hash of (scenario, decisions).".into()
    }
    fn assumptions(&self) -> Vec<String> {
        vec![
            "sequentially consistent interleavings at lock/unlock/yield granularity; weak-memory behaviour of `unsafe impl Sync for Circ` is only sampled by the real-thread run on this x86 machine".into(),
            "one producer task and one consumer task (the documented usage)".into(),
        ]
    }
    fn extra(&self, tier: Tier, seed: u64, ev: &mut Extra) {
        // real threads, real std primitives (no scheduler hook installed on these threads)
        let total: u64 = tier.pick(400_000, 20_000_000);
        let t0 = std::time::Instant::now();
        rustradio::verif::set_stream_size(Some(4096));
        let (ws, rs) = new_stream::<u32>();
        rustradio::verif::set_stream_size(None);
        let err: Arc<Mutex<Option<String>>> = Arc::new(Mutex::new(None));
        let e2 = err.clone();
        let e3 = err.clone();
        let prod = std::thread::spawn(move || {
            let mut r = XRng::new(seed ^ 0x9d);
            let mut sent = 0u64;
            while sent < total {
                // free-space queries are atomic with commits and consumes: between two queries
                // without a commit of its own, the producer's window lies between them (the
                // consumer can only add room)
                let f1 = ws.free();
                let mut wb = ws.write_buf().unwrap();
                let f2 = ws.free();
                if !(f1 <= wb.len() && wb.len() <= f2) {
                    *e3.lock().unwrap() = Some(format!("free() said {f1}, then the write window had {} slots, then free() said {f2} (no commit in between)", wb.len()));
                    return;
                }
                if wb.is_empty() {
                    drop(wb);
                    if ws.wait(1) {
                        break;
                    }
                    continue;
                }
                let n = (1 + r.below(wb.len() as u64) as usize).min((total - sent) as usize);
                for (i, s) in wb.slice()[..n].iter_mut().enumerate() {
                    *s = val(sent + i as u64);
                }
                wb.produce(n, &[]);
                sent += n as u64;
            }
        });
        let cons = std::thread::spawn(move || {
            let mut r = XRng::new(seed ^ 0x7c);
            let mut got = 0u64;
            loop {
                let (rb, _) = rs.read_buf().unwrap();
                if rb.is_empty() {
                    drop(rb);
                    if rs.eof() {
                        break;
                    }
                    let _ = rs.wait(1);
                    continue;
                }
                let k = 1 + r.below(rb.len() as u64) as usize;
                for (i, s) in rb.slice()[..k].iter().enumerate() {
                    if *s != val(got + i as u64) {
                        *e2.lock().unwrap() = Some(format!("sample {} read as {s:#x}", got + i as u64));
                        return got;
                    }
                }
                rb.consume(k);
                got += k as u64;
            }
            got
        });
        let _ = prod.join();
        let got = cons.join().unwrap_or(0);
        ev.evaluations += 1;
        let cj = json!({"real_threads": {"samples": total, "seed": seed}});
        ev.nontrivial_hashes.insert(hash_json(&cj));
        ev.notes.insert("real_thread_run".into(), json!({"samples": total, "received": got, "wall_s": t0.elapsed().as_secs_f64()}));
        if let Some(e) = err.lock().unwrap().clone() {
            let sig = if e.starts_with("free()") { "C03/real-threads/free-not-atomic" } else { "C03/real-threads/data" };
            ev.failures.push((Failure { sig: sig.into(), msg: e }, cj));
        } else if got != total {
            ev.failures.push((Failure { sig: "C03/real-threads/count".into(), msg: format!("sent {total}, received {got}") }, cj));
        }
    }
}
