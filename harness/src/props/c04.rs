//! C04 — end-of-stream decisions never lose committed data and always arrive.
use std::sync::atomic::{AtomicBool, AtomicU64, Ordering};
use std::sync::{Arc, Mutex};

use proptest::prelude::*;
use rustradio::stream::{StreamWait, new_nocopy_stream, new_stream};
use serde::{Deserialize, Serialize};

use crate::engine::{Ctx, Prop, Tier, loc_file};
use crate::sched::*;

pub struct C04;

#[derive(Clone, Debug, Serialize, Deserialize, PartialEq)]
pub struct C04Case {
    /// 0 sample stream, reader waits; 1 sample stream, writer waits for space; 2 packet stream, reader waits
    pub kind: u8,
    /// 0 poll with StreamWait::wait, 1 poll with eof()
    pub api: u8,
    pub pre: u16,
    pub commits: Vec<u16>,
    pub need: u16,
    pub consume: u16,
    pub decisions: Vec<u8>,
}

const CAP: usize = 1024; // one page of u32

fn case_strategy(max_dec: usize) -> BoxedStrategy<C04Case> {
    (
        0u8..3,
        0u8..2,
        prop_oneof![Just(0u16), 0u16..8, 0u16..1024, Just(1024u16)],
        // u16::MAX = "fill the stream completely" (a full ring is a position where rpos == wpos, too)
        prop::collection::vec(prop_oneof![3 => 1u16..4, 3 => 1u16..300, 2 => Just(u16::MAX)], 0..4),
        // needs up to the whole stream, exactly the whole stream, and (a block asking for more
        // than the stream can ever hold must still be released once its peer is gone) beyond it
        prop_oneof![3 => 1u16..4, 3 => 1u16..40, 3 => 1u16..1024, 1 => Just(1024u16), 1 => 1025u16..2100],
        prop_oneof![Just(0u16), 1u16..8, 1u16..1024],
        decisions_strategy(max_dec),
    )
        .prop_map(|(kind, api, pre, commits, need, consume, decisions)| C04Case { kind, api, pre, commits, need, consume, decisions })
        .boxed()
}

type Fails = Arc<Mutex<Vec<(String, String)>>>;
fn fail(f: &Fails, sig: &str, msg: String) {
    f.lock().unwrap().push((sig.to_string(), msg));
}

fn val(i: u64) -> u32 {
    (i as u32).wrapping_mul(2654435761) ^ 0x5a5a
}

fn scenario_reader_waits(c: &C04Case, fails: Fails, gap: Arc<AtomicBool>) {
    rustradio::verif::set_stream_size(Some(4096));
    let (ws, rs) = new_stream::<u32>();
    rustradio::verif::set_stream_size(None);
    let committed = Arc::new(AtomicU64::new(0));
    let pre = (c.pre as usize).min(CAP);
    {
        let mut wb = ws.write_buf().unwrap();
        for (i, s) in wb.slice()[..pre].iter_mut().enumerate() {
            *s = val(i as u64);
        }
        wb.produce(pre, &[]);
        committed.store(pre as u64, Ordering::SeqCst);
    }
    let commits = c.commits.clone();
    let com2 = committed.clone();
    let writer = spawn("writer", move || {
        for n in commits {
            let n = if n == u16::MAX { ws.free() } else { (n as usize).min(CAP) };
            if n == 0 {
                continue;
            }
            let mut tries = 0;
            loop {
                let mut wb = ws.write_buf().unwrap();
                if wb.len() >= n {
                    let base = com2.load(Ordering::SeqCst);
                    for (i, s) in wb.slice()[..n].iter_mut().enumerate() {
                        *s = val(base + i as u64);
                    }
                    wb.produce(n, &[]);
                    com2.fetch_add(n as u64, Ordering::SeqCst);
                    break;
                }
                drop(wb);
                tries += 1;
                if tries > 300 {
                    break;
                }
                let _ = ws.wait(n);
            }
        }
        drop(ws); // the writer side goes away
    });
    let need = (c.need as usize).clamp(1, 2 * CAP + 100);
    let consume = c.consume as usize;
    let api = c.api;
    let f2 = fails.clone();
    let reader = spawn("reader", move || {
        let mut consumed: u64 = 0;
        let check_and_take = |consumed: &mut u64, k: usize| -> bool {
            let (rb, _) = rs.read_buf().unwrap();
            let k = k.min(rb.len());
            for (i, s) in rb.slice()[..k].iter().enumerate() {
                if *s != val(*consumed + i as u64) {
                    fail(&f2, "C04/data/torn-or-reordered", format!("sample {} read as {:#x}", *consumed + i as u64, s));
                    return false;
                }
            }
            rb.consume(k);
            *consumed += k as u64;
            true
        };
        for _round in 0..80 {
            // liveness first: once the writer is gone the buffered amount cannot grow
            let before_closed = rs.closed();
            let avail = rs.read_buf().unwrap().0.len();
            if api == 0 {
                let certain = before_closed && avail < need;
                let never = rs.wait(need);
                if !before_closed && rs.closed() {
                    gap.store(true, Ordering::Relaxed); // the peer left while we were inside wait()
                }
                if never {
                    // valid to check right after: a gone writer cannot add data
                    let closed = rs.closed();
                    let now = rs.read_buf().unwrap().0.len();
                    if !closed {
                        fail(&f2, "C04/wait/never-with-writer-alive", format!("wait({need}) said 'never' while the writer end still exists ({now} buffered)"));
                    } else if now >= need {
                        fail(&f2, "C04/wait/never-with-enough-data", format!("wait({need}) said 'never' with {now} samples buffered (writer gone): committed data would be dropped"));
                    }
                    // everything committed before the writer left is still readable, in order
                    if closed {
                        let total = committed.load(Ordering::SeqCst);
                        if !check_and_take(&mut consumed, usize::MAX) {
                            return;
                        }
                        if consumed != total {
                            fail(&f2, "C04/data/lost-at-end-of-stream", format!("writer committed {total} samples, reader could read {consumed} after the 'never' verdict"));
                        }
                    }
                    return;
                } else if certain {
                    fail(&f2, "C04/wait/verdict-did-not-arrive", format!("writer gone and only {avail} < {need} buffered before the call, yet wait({need}) returned false"));
                    return;
                }
            } else {
                let certain = before_closed && avail == 0;
                let e = rs.eof();
                if !before_closed && rs.closed() {
                    gap.store(true, Ordering::Relaxed);
                }
                if e {
                    let closed = rs.closed();
                    let now = rs.read_buf().unwrap().0.len();
                    if !closed || now != 0 {
                        fail(&f2, "C04/eof/true-with-data-or-writer", format!("eof() returned true with writer alive={} and {now} samples buffered", !closed));
                    }
                    if closed {
                        let total = committed.load(Ordering::SeqCst);
                        if !check_and_take(&mut consumed, usize::MAX) {
                            return;
                        }
                        if consumed != total {
                            fail(&f2, "C04/data/lost-at-end-of-stream", format!("writer committed {total} samples, reader got {consumed} by the time eof() was true"));
                        }
                    }
                    return;
                } else if certain {
                    fail(&f2, "C04/eof/verdict-did-not-arrive", "writer gone and stream empty before the call, yet eof() returned false".to_string());
                    return;
                }
            }
            // eof polling: mostly take everything, but sometimes leave the data where it is so
            // that eof() is asked with a (possibly completely) full stream
            let take = if api == 1 && consume != 0 { usize::MAX } else { consume };
            if take > 0 && !check_and_take(&mut consumed, take) {
                return;
            }
        }
    });
    let _ = writer.join();
    let _ = reader.join();
}

fn scenario_writer_waits(c: &C04Case, fails: Fails, gap: Arc<AtomicBool>) {
    rustradio::verif::set_stream_size(Some(4096));
    let (ws, rs) = new_stream::<u32>();
    rustradio::verif::set_stream_size(None);
    let pre = (c.pre as usize).min(CAP);
    {
        let wb = ws.write_buf().unwrap();
        wb.produce(pre, &[]);
    }
    let takes = c.commits.clone();
    let reader = spawn("reader", move || {
        for n in takes {
            let (rb, _) = rs.read_buf().unwrap();
            let k = (n as usize).min(rb.len());
            rb.consume(k);
        }
        drop(rs); // the reading side goes away
    });
    let need = (c.need as usize).clamp(1, 2 * CAP + 100);
    let f2 = fails.clone();
    let writer = spawn("writer", move || {
        for _round in 0..80 {
            let before_closed = ws.closed();
            let free = ws.free();
            let certain = before_closed && free < need;
            let never = ws.wait(need);
            if !before_closed && ws.closed() {
                gap.store(true, Ordering::Relaxed);
            }
            if never {
                let closed = ws.closed();
                let now = ws.free();
                if !closed {
                    fail(&f2, "C04/wait/never-with-reader-alive", format!("writer's wait({need}) said 'never' while the reader end still exists (free {now})"));
                } else if now >= need {
                    fail(&f2, "C04/wait/never-with-enough-space", format!("writer's wait({need}) said 'never' with {now} free"));
                }
                return;
            } else if certain {
                fail(&f2, "C04/wait/verdict-did-not-arrive", format!("reader gone and only {free} < {need} free before the call, yet the writer's wait returned false"));
                return;
            }
            // use the space if it is there
            let wb = ws.write_buf().unwrap();
            if wb.len() >= need {
                wb.produce(need, &[]);
            }
        }
    });
    let _ = reader.join();
    let _ = writer.join();
}

fn scenario_packets(c: &C04Case, fails: Fails, gap: Arc<AtomicBool>) {
    let (ws, rs) = new_nocopy_stream::<Vec<u8>>();
    let pre = (c.pre as usize).min(20);
    for i in 0..pre {
        ws.push(vec![i as u8], &[]);
    }
    let pushes: usize = c.commits.iter().map(|x| (*x as usize).min(6)).sum();
    let total = pre + pushes;
    let writer = spawn("writer", move || {
        for i in 0..pushes {
            ws.push(vec![(pre + i) as u8], &[]);
        }
        drop(ws);
    });
    let need = (c.need as usize).clamp(1, 30);
    let consume = c.consume as usize;
    let api = c.api;
    let f2 = fails.clone();
    let reader = spawn("reader", move || {
        let mut got = 0usize;
        let pop_n = |got: &mut usize, k: usize| -> bool {
            for _ in 0..k {
                match rs.pop() {
                    Some((v, _)) => {
                        if v != vec![*got as u8] {
                            fail(&f2, "C04/data/torn-or-reordered", format!("packet {} arrived as {v:?}", *got));
                            return false;
                        }
                        *got += 1;
                    }
                    None => break,
                }
            }
            true
        };
        for _round in 0..80 {
            let before_closed = rs.closed();
            let avail = rs.verif_len();
            if api == 0 {
                let certain = before_closed && avail < need;
                let never = rs.wait(need);
                if !before_closed && rs.closed() {
                    gap.store(true, Ordering::Relaxed);
                }
                if never {
                    let closed = rs.closed();
                    let now = rs.verif_len();
                    if !closed {
                        fail(&f2, "C04/wait/never-with-writer-alive", format!("packet wait({need}) said 'never' while the writer end still exists"));
                    } else if now >= need {
                        fail(&f2, "C04/wait/never-with-enough-data", format!("packet wait({need}) said 'never' with {now} packets queued (writer gone)"));
                    }
                    if closed {
                        if !pop_n(&mut got, usize::MAX) {
                            return;
                        }
                        if got != total {
                            fail(&f2, "C04/data/lost-at-end-of-stream", format!("{total} packets pushed, {got} readable after the 'never' verdict"));
                        }
                    }
                    return;
                } else if certain {
                    fail(&f2, "C04/wait/verdict-did-not-arrive", format!("writer gone and {avail} < {need} packets queued before the call, yet wait returned false"));
                    return;
                }
                if consume > 0 && !pop_n(&mut got, consume) {
                    return;
                }
            } else {
                let certain = before_closed && avail == 0;
                let e = rs.eof();
                if !before_closed && rs.closed() {
                    gap.store(true, Ordering::Relaxed);
                }
                if e {
                    let closed = rs.closed();
                    let now = rs.verif_len();
                    if !closed || now != 0 {
                        fail(&f2, "C04/eof/true-with-data-or-writer", format!("packet eof() returned true with writer alive={} and {now} packets queued: queued packets would be dropped", !closed));
                    }
                    if closed {
                        if !pop_n(&mut got, usize::MAX) {
                            return;
                        }
                        if got != total {
                            fail(&f2, "C04/data/lost-at-end-of-stream", format!("{total} packets pushed, {got} received by the time eof() was true"));
                        }
                    }
                    return;
                } else if certain {
                    fail(&f2, "C04/eof/verdict-did-not-arrive", "writer gone and queue empty before the call, yet eof() returned false".to_string());
                    return;
                }
                if !pop_n(&mut got, usize::MAX) {
                    return;
                }
            }
        }
    });
    let _ = writer.join();
    let _ = reader.join();
}

impl Prop for C04 {
    type Case = C04Case;
    fn id(&self) -> &'static str {
        "C04"
    }
    fn strategy(&self, tier: Tier) -> BoxedStrategy<C04Case> {
        case_strategy(tier.pick(80, 200) as usize)
    }
    fn cases(&self, tier: Tier) -> u64 {
        tier.pick(12_000, 400_000)
    }
    fn run(&self, case: &C04Case, ctx: &mut Ctx) {
        let fails: Fails = Arc::new(Mutex::new(Vec::new()));
        let gap = Arc::new(AtomicBool::new(false));
        let c = case.clone();
        let (f2, g2) = (fails.clone(), gap.clone());
        let ex = explore(&case.decisions, 200_000, move || match c.kind % 3 {
            0 => scenario_reader_waits(&c, f2.clone(), g2.clone()),
            1 => scenario_writer_waits(&c, f2.clone(), g2.clone()),
            _ => scenario_packets(&c, f2.clone(), g2.clone()),
        });
        ctx.class(format!("kind={} api={}", ["reader-waits", "writer-waits", "packet-reader"][(case.kind % 3) as usize], case.api % 2));
        for (sig, msg) in fails.lock().unwrap().iter() {
            ctx.fail(sig.clone(), format!("{msg} [{} scheduling steps, {} pre-emptions]", ex.steps, ex.preemptions));
        }
        if let Some(pi) = &ex.panic {
            if ex.step_bound_hit {
                if ex.fair_steps > 100_000 {
                    ctx.fail("C04/no-termination-under-fair-schedule".to_string(), format!("{} steps, {} of them under the fair continuation", ex.steps, ex.fair_steps));
                } else {
                    ctx.skip("step budget hit under an unfair prefix (inconclusive)");
                }
            } else if fails.lock().unwrap().is_empty() {
                ctx.fail(format!("C04/panic/{}", loc_file(&pi.loc)), format!("execution panicked at {}: {}", pi.loc, pi.msg));
            }
            return;
        }
        if gap.load(Ordering::Relaxed) {
            ctx.class("peer-left-during-the-waiters-call");
            ctx.nontrivial();
        }
    }
    fn rule(&self) -> String {
        "generated: scenario (sample stream with a waiting reader / sample stream with a writer waiting for space / packet stream with a waiting reader; polling by StreamWait::wait or by eof()) x amount pre-buffered x the peer's final commits (then the peer end is dropped) x need x per-round consumption x a scheduler decision stream (every lock, unlock, timed-wait yield, notify and stream-end drop is a scheduling point; wait timeouts fire after 0-3 yields). One case = one execution on the shuttle runtime. Oracle: a 'never' verdict implies (checked right after, valid because a gone peer cannot add data) peer gone AND available < need; eof()==true implies writer gone and stream empty; after either, everything the peer committed is read back in order, nothing lost; once the peer is gone and the remainder insufficient BEFORE a call, that call must deliver the verdict (bound: 1 call). Non-trivial: the peer's end disappeared while the waiter was inside its wait()/eof() call; distinct = hash of (scenario, decisions).".into()
    }
    fn assumptions(&self) -> Vec<String> {
        vec![
            "interleavings at lock/unlock/yield granularity under sequential consistency (no weak-memory effects)".into(),
            "timed waits are modelled as 'returns after 0..3 scheduling yields', which is a subset of real behaviours".into(),
        ]
    }
}
