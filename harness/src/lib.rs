//! rrverif: property-based-testing / fuzzing harness for rustradio (see /verif/DESIGN.md).
pub mod catalog;
pub mod derived;
pub mod drip;
pub mod dripcase;
pub mod engine;
pub mod gens;
pub mod graphgen;
pub mod osfault;
pub mod props;
pub mod refmodel;
pub mod ring;
pub mod sched;
pub mod fuzz_entry;
