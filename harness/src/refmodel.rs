//! E3: independent executable specifications, written from the documentation / textbook
//! definitions.  Nothing in here calls into the library's implementation of the thing it
//! specifies.
use rustradio::Complex;
use rustradio::stream::TagValue;

use crate::catalog::BlockSpec;
use crate::drip::{InputData, PortData, Samp};

// ---------------------------------------------------------------------------------------
// HDLC / AX.25 framing.

/// CRC-16/X.25 (poly 0x1021 reflected = 0x8408, init 0xffff, xorout 0xffff), bit by bit.
pub fn crc16_x25(data: &[u8]) -> u16 {
    let mut crc: u16 = 0xffff;
    for &b in data {
        let mut b = b;
        for _ in 0..8 {
            let mix = (crc ^ b as u16) & 1;
            crc >>= 1;
            if mix != 0 {
                crc ^= 0x8408;
            }
            b >>= 1;
        }
    }
    !crc
}

pub const FLAG_BITS: [u8; 8] = [0, 1, 1, 1, 1, 1, 1, 0];

/// LSB-first bits of `bytes`, with a 0 stuffed after every five consecutive 1s.
pub fn hdlc_stuffed_bits(bytes: &[u8]) -> Vec<u8> {
    let mut out = Vec::with_capacity(bytes.len() * 9);
    let mut ones = 0;
    for &b in bytes {
        for i in 0..8 {
            let bit = (b >> i) & 1;
            out.push(bit);
            if bit == 1 {
                ones += 1;
                if ones == 5 {
                    out.push(0);
                    ones = 0;
                }
            } else {
                ones = 0;
            }
        }
    }
    out
}

/// payload ++ CRC (little endian), as transmitted.
pub fn hdlc_with_fcs(payload: &[u8]) -> Vec<u8> {
    let mut v = payload.to_vec();
    v.extend(crc16_x25(payload).to_le_bytes());
    v
}

/// `lead` flags, stuffed frame (payload + FCS), `trail` flags.
pub fn hdlc_frame_bits(payload: &[u8], lead: usize, trail: usize) -> Vec<u8> {
    let mut out = Vec::new();
    for _ in 0..lead {
        out.extend(FLAG_BITS);
    }
    out.extend(hdlc_stuffed_bits(&hdlc_with_fcs(payload)));
    for _ in 0..trail {
        out.extend(FLAG_BITS);
    }
    out
}

/// NRZI encode (AX.25 convention: 0 = toggle, 1 = keep). Returns line levels 0/1.
pub fn nrzi_encode(bits: &[u8], mut level: u8) -> Vec<u8> {
    bits.iter()
        .map(|&b| {
            if b == 0 {
                level ^= 1;
            }
            level
        })
        .collect()
}

/// G3RUH scrambler: out[n] = in[n] ^ out[n-12] ^ out[n-17] (x^17 + x^12 + 1).
pub fn g3ruh_scramble(bits: &[u8]) -> Vec<u8> {
    let mut out: Vec<u8> = Vec::with_capacity(bits.len());
    for (n, &b) in bits.iter().enumerate() {
        let a = if n >= 12 { out[n - 12] } else { 0 };
        let c = if n >= 17 { out[n - 17] } else { 0 };
        out.push(b ^ a ^ c);
    }
    out
}

// ---------------------------------------------------------------------------------------
// AU format.

/// The 28-byte header of a mono PCM16 .au stream of unknown length.
pub fn au_header(rate: u32) -> Vec<u8> {
    let mut v = Vec::new();
    v.extend(0x2e736e64u32.to_be_bytes()); // ".snd"
    v.extend(28u32.to_be_bytes()); // data offset
    v.extend(0xffff_ffffu32.to_be_bytes()); // unknown size
    v.extend(3u32.to_be_bytes()); // 16-bit linear PCM
    v.extend(rate.to_be_bytes());
    v.extend(1u32.to_be_bytes()); // channels
    v.extend([0u8; 4]); // annotation
    v
}

/// PCM16 quantisation used by the encoder: saturating truncation of x*32767.
pub fn pcm16(x: f32) -> i16 {
    let y = x * 32767.0;
    if y.is_nan() {
        0
    } else if y >= 32767.0 {
        32767
    } else if y <= -32768.0 {
        -32768
    } else {
        y.trunc() as i16
    }
}

// ---------------------------------------------------------------------------------------
// Small helpers.

pub fn bits_of<T: Samp>(v: &[T]) -> Vec<u64> {
    v.iter().map(|x| x.bits()).collect()
}

pub fn gcd(a: u64, b: u64) -> u64 {
    if b == 0 { a } else { gcd(b, a % b) }
}

/// Direct O(n^2) DFT in f64.
pub fn dft(x: &[Complex]) -> Vec<(f64, f64)> {
    let n = x.len();
    (0..n)
        .map(|k| {
            let mut re = 0f64;
            let mut im = 0f64;
            for (t, s) in x.iter().enumerate() {
                let ang = -std::f64::consts::TAU * (k as f64) * (t as f64) / n as f64;
                let (sn, cs) = ang.sin_cos();
                re += s.re as f64 * cs - s.im as f64 * sn;
                im += s.re as f64 * sn + s.im as f64 * cs;
            }
            (re, im)
        })
        .collect()
}

pub struct RefOut {
    /// expected output per port
    pub outs: Vec<PortData>,
    /// compare bit-exactly (after NaN canonicalisation) or with the FFT tolerance
    pub exact: bool,
    /// tags the block itself must add: per port (index, key, value)
    pub added_tags: Option<Vec<Vec<(usize, String, TagValue)>>>,
    /// the block never ends: `outs` holds one period and the observed output must repeat it
    pub prefix_only: bool,
    /// expected content of the sink's store
    pub sink: Option<Vec<u64>>,
}

fn exact(outs: Vec<PortData>) -> Option<RefOut> {
    Some(RefOut {
        outs,
        exact: true,
        added_tags: None,
        prefix_only: false,
        sink: None,
    })
}

fn cmul(a: Complex, b: Complex) -> Complex {
    Complex::new(a.re * b.re - a.im * b.im, a.re * b.im + a.im * b.re)
}

/// The exactly-specified blocks of C10.  `None`: no exact specification (or the inputs
/// are outside the sub-domain the documentation determines).
pub fn reference(spec: &BlockSpec, inputs: &[InputData], script_tags: &[(usize, String, TagValue)]) -> Option<RefOut> {
    use BlockSpec::*;
    use InputData as D;
    let s = |v: Vec<u64>| PortData::Samples(v);
    match (spec, inputs) {
        (AddConstF32 { val }, [D::F32(x)]) | (MapAddConstF32 { val }, [D::F32(x)]) => {
            exact(vec![s(x.iter().map(|a| (a + val).bits()).collect())])
        }
        (AddConstC32 { re, im }, [D::C32(x)]) => {
            exact(vec![s(x.iter().map(|a| Complex::new(a.re + re, a.im + im).bits()).collect())])
        }
        (AddConstU32 { val }, [D::U32(x)]) => exact(vec![s(x.iter().map(|a| (a + val) as u64).collect())]),
        (MulConstF32 { val }, [D::F32(x)]) => exact(vec![s(x.iter().map(|a| (a * val).bits()).collect())]),
        (MulConstC32 { re, im }, [D::C32(x)]) => {
            let c = Complex::new(*re, *im);
            exact(vec![s(x.iter().map(|a| cmul(*a, c).bits()).collect())])
        }
        (XorConstU8 { val }, [D::U8(x)]) => exact(vec![s(x.iter().map(|a| (a ^ val) as u64).collect())]),
        (XorU8, [D::U8(a), D::U8(b)]) => exact(vec![s(a.iter().zip(b).map(|(x, y)| (x ^ y) as u64).collect())]),
        (AddF32, [D::F32(a), D::F32(b)]) => exact(vec![s(a.iter().zip(b).map(|(x, y)| (x + y).bits()).collect())]),
        (FloatToComplex, [D::F32(a), D::F32(b)]) => {
            exact(vec![s(a.iter().zip(b).map(|(x, y)| Complex::new(*x, *y).bits()).collect())])
        }
        (BinarySlicer, [D::F32(x)]) => exact(vec![s(x.iter().map(|a| if *a > 0.0 { 1 } else { 0 }).collect())]),
        (ComplexToMag2, [D::C32(x)]) => exact(vec![s(x.iter().map(|a| (a.re * a.re + a.im * a.im).bits()).collect())]),
        (Nrzi, [D::U8(x)]) => {
            // NRZI-S: a toggle is 0, no change is 1; the line is assumed low before the first bit
            let mut prev = 0u8;
            let out = x
                .iter()
                .map(|&a| {
                    let o = if a == prev { 1 } else { 0 };
                    prev = a;
                    o
                })
                .collect();
            exact(vec![s(out)])
        }
        (Descrambler { mask, seed, len }, [D::U8(x)]) => {
            // multiplicative (self-synchronising) descrambler: the input bit enters the
            // register at bit `len`, the register shifts right, output = input xor parity of
            // the masked register before the shift
            let mut reg = *seed;
            let out = x
                .iter()
                .map(|&b| {
                    let p = ((reg & mask).count_ones() & 1) as u64;
                    let o = p ^ b as u64;
                    reg = (reg >> 1) | ((b as u64) << len);
                    o
                })
                .collect();
            exact(vec![s(out)])
        }
        (Cac { code, allowed }, [D::U8(x)]) | (CacTag { code, allowed }, [D::U8(x)]) => {
            let l = code.len();
            let mut hist: Vec<u8> = vec![0; l];
            hist.extend(x.iter().copied());
            let mut outv = Vec::with_capacity(x.len());
            let mut tags = Vec::new();
            for i in 0..x.len() {
                // window of the l most recent bits, oldest first
                let w = &hist[i + 1..i + 1 + l];
                let d = w.iter().zip(code.iter()).filter(|(a, b)| a != b).count();
                let hit = d <= *allowed as usize;
                if matches!(spec, Cac { .. }) {
                    outv.push(hit as u64);
                } else {
                    outv.push(x[i] as u64);
                    if hit {
                        tags.push((i, "cac".to_string(), TagValue::U64(d as u64)));
                    }
                }
            }
            Some(RefOut {
                outs: vec![s(outv)],
                exact: true,
                added_tags: if matches!(spec, CacTag { .. }) { Some(vec![tags]) } else { None },
                prefix_only: false,
                sink: None,
            })
        }
        (TeeU8, [D::U8(x)]) => exact(vec![s(bits_of(x)), s(bits_of(x))]),
        (TeeF32, [D::F32(x)]) => exact(vec![s(bits_of(x)), s(bits_of(x))]),
        (SkipU8 { skip }, [D::U8(x)]) => exact(vec![s(bits_of(&x[(*skip as usize).min(x.len())..]))]),
        (SkipF32 { skip }, [D::F32(x)]) => exact(vec![s(bits_of(&x[(*skip as usize).min(x.len())..]))]),
        (DelayU8 { delay }, [D::U8(x)]) => {
            let mut v = vec![0u64; *delay as usize];
            v.extend(bits_of(x));
            exact(vec![s(v)])
        }
        (DelayRetuneU8 { d0, early, mid, .. }, [D::U8(x)]) => {
            // the delay line: `early` settings before anything ran just replace the delay;
            // a later raise inserts zeros, a later cut drops input
            let d_eff = early.last().copied().unwrap_or(*d0) as usize;
            let xb = bits_of(x);
            let mut v = vec![0u64; d_eff];
            match mid {
                Some((at, d)) if xb.len() >= *at as usize => {
                    let (at, d) = (*at as usize, *d as usize);
                    v.extend(&xb[..at]);
                    if d >= d_eff {
                        v.extend(std::iter::repeat(0u64).take(d - d_eff));
                        v.extend(&xb[at..]);
                    } else {
                        let from = (at + (d_eff - d)).min(xb.len());
                        v.extend(&xb[from..]);
                    }
                }
                _ => v.extend(xb),
            }
            exact(vec![s(v)])
        }
        (DelayF32 { delay }, [D::F32(x)]) => {
            let mut v = vec![0f32.bits(); *delay as usize];
            v.extend(bits_of(x));
            exact(vec![s(v)])
        }
        (ResampU8 { interp, deci }, [D::U8(x)]) => exact(vec![s(resample(&bits_of(x), *interp as u64, *deci as u64))]),
        (ResampF32 { interp, deci }, [D::F32(x)]) => exact(vec![s(resample(&bits_of(x), *interp as u64, *deci as u64))]),
        (RtlSdrDecode, [D::U8(x)]) => {
            let out = x
                .chunks_exact(2)
                .map(|p| Complex::new((p[0] as f32 - 127.0) * 0.008, (p[1] as f32 - 127.0) * 0.008).bits())
                .collect();
            exact(vec![s(out)])
        }
        (VecToStreamU8, [D::PU8(p)]) => {
            let mut v = Vec::new();
            let mut tags = Vec::new();
            for pk in p {
                if pk.is_empty() {
                    continue;
                }
                tags.push((v.len(), "VecToStream::start".to_string(), TagValue::U64(pk.len() as u64)));
                tags.push((v.len() + pk.len() - 1, "VecToStream::end".to_string(), TagValue::U64(pk.len() as u64)));
                v.extend(pk.iter().map(|b| *b as u64));
            }
            Some(RefOut {
                outs: vec![s(v)],
                exact: true,
                added_tags: Some(vec![tags]),
                prefix_only: false,
                sink: None,
            })
        }
        (BurstTaggerU32 { threshold }, [D::U32(x), D::F32(t)]) => {
            let n = x.len().min(t.len());
            let mut last = false;
            let mut tags = Vec::new();
            for (i, tv) in t.iter().take(n).enumerate() {
                let cur = *tv > *threshold;
                if cur != last {
                    tags.push((i, "burst".to_string(), TagValue::Bool(cur)));
                }
                last = cur;
            }
            Some(RefOut {
                outs: vec![s(bits_of(&x[..n]))],
                exact: true,
                added_tags: Some(vec![tags]),
                prefix_only: false,
                sink: None,
            })
        }
        (ToTextU8 { .. }, ins) | (ToTextF32 { .. }, ins) => {
            let n = ins.iter().map(|d| d.len()).min().unwrap_or(0);
            let mut text = String::new();
            for i in 0..n {
                let cols: Vec<String> = ins
                    .iter()
                    .map(|d| match d {
                        D::U8(v) => format!("{:?}", v[i]),
                        D::F32(v) => format!("{:?}", v[i]),
                        _ => unreachable!(),
                    })
                    .collect();
                text.push_str(&cols.join(" "));
                text.push('\n');
            }
            exact(vec![s(text.bytes().map(|b| b as u64).collect())])
        }
        (FftStream { size, .. }, [D::C32(x)]) => {
            let n = 1usize << size;
            let mut out = Vec::new();
            for frame in x.chunks_exact(n) {
                for (re, im) in dft(frame) {
                    out.push(Complex::new(re as f32, im as f32).bits());
                }
            }
            Some(RefOut {
                outs: vec![s(out)],
                exact: false,
                added_tags: None,
                prefix_only: false,
                sink: None,
            })
        }
        (VectorSourceU8 { len, repeat }, []) => {
            let data: Vec<u64> = crate::catalog::vector_source_data(*len).iter().map(|b| *b as u64).collect();
            // infinite: `outs` holds one period, compared cyclically
            let (reps, prefix) = if *repeat == 255 { (1usize, true) } else { (*repeat as usize, false) };
            let mut out = Vec::new();
            if !data.is_empty() {
                for _ in 0..reps {
                    out.extend(data.iter().copied());
                    if out.len() > 400_000 {
                        break;
                    }
                }
            }
            Some(RefOut { outs: vec![s(out)], exact: true, added_tags: None, prefix_only: prefix, sink: None })
        }
        (ConstantSourceF32 { val }, []) => Some(RefOut {
            outs: vec![s(vec![val.bits(); 1])],
            exact: true,
            added_tags: None,
            prefix_only: true,
            sink: None,
        }),
        (NullSinkU8, [D::U8(_)]) => Some(RefOut { outs: vec![], exact: true, added_tags: None, prefix_only: false, sink: None }),
        (VectorSinkU8 { max }, [D::U8(x)]) => Some(RefOut {
            outs: vec![],
            exact: true,
            added_tags: None,
            prefix_only: false,
            sink: Some(x.iter().take(*max as usize).map(|b| *b as u64).collect()),
        }),
        (StreamToPduU8 { max, tail }, [D::U8(x)]) => stream_to_pdu(&bits_of(x), script_tags, *max as usize, *tail as usize),
        (StreamToPduF32 { max, tail }, [D::F32(x)]) => stream_to_pdu(&bits_of(x), script_tags, *max as usize, *tail as usize),
        _ => None,
    }
}

/// After n inputs exactly ceil(n*I/D) outputs exist; input i is emitted
/// ceil((i+1)I/D) - ceil(iI/D) times.
fn resample(x: &[u64], interp: u64, deci: u64) -> Vec<u64> {
    let mut out = Vec::new();
    for (i, v) in x.iter().enumerate() {
        let i = i as u64;
        let a = (i * interp).div_ceil(deci);
        let b = ((i + 1) * interp).div_ceil(deci);
        for _ in a..b {
            out.push(*v);
        }
    }
    out
}

/// Determined sub-domain only: well-formed alternating start(true)/end(false) tags,
/// tail == 0, every burst no longer than max, at least one sample after the last end tag.
/// A PDU is then the samples from the start-tagged one up to (excluding) the end-tagged one.
fn stream_to_pdu(x: &[u64], tags: &[(usize, String, TagValue)], max: usize, tail: usize) -> Option<RefOut> {
    if tail != 0 {
        return None;
    }
    let mut evs: Vec<(usize, bool)> = Vec::new();
    for (p, k, v) in tags {
        if k == "burst" {
            match v {
                TagValue::Bool(b) => evs.push((*p, *b)),
                _ => return None,
            }
        }
    }
    evs.sort();
    let mut pdus = Vec::new();
    let mut expect_start = true;
    let mut start = 0;
    let mut lastpos = None;
    for (p, b) in evs {
        if Some(p) == lastpos {
            return None; // two tags on one sample: undetermined
        }
        lastpos = Some(p);
        if b != expect_start {
            return None;
        }
        if b {
            start = p;
        } else {
            if p - start > max || p == start {
                return None;
            }
            if p + 1 >= x.len() {
                // no sample after the end tag: emission is still pending
                return None;
            }
            pdus.push(x[start..p].to_vec());
        }
        expect_start = !expect_start;
    }
    if !expect_start {
        // open burst at the end of input: must not exceed max to stay determined
        if x.len() - start > max {
            return None;
        }
    }
    Some(RefOut {
        outs: vec![PortData::Packets(pdus)],
        exact: true,
        added_tags: None,
        prefix_only: false,
        sink: None,
    })
}
