//! Case runner shared by all properties: seeded proptest generation on worker
//! threads, signature-preserving shrinking, known-findings matching, replay
//! files, regression corpus and evidence files.
use std::collections::{BTreeMap, BTreeSet, HashSet};
use std::hash::{Hash, Hasher};
use std::panic::{AssertUnwindSafe, catch_unwind};
use std::path::{Path, PathBuf};
use std::sync::Mutex;
use std::sync::atomic::{AtomicBool, AtomicU64, Ordering};
use std::time::Instant;

use proptest::strategy::{BoxedStrategy, Strategy, ValueTree};
use proptest::test_runner::{Config, RngAlgorithm, TestRng, TestRunner};
use serde::Serialize;
use serde::de::DeserializeOwned;
use serde_json::{Value, json};

pub const VERIF_DIR: &str = "/verif";

#[derive(Clone, Copy, Debug, PartialEq, Eq)]
pub enum Tier {
    Quick,
    Thorough,
}
impl Tier {
    pub fn name(self) -> &'static str {
        match self {
            Tier::Quick => "quick",
            Tier::Thorough => "thorough",
        }
    }
    /// Pick a per-tier number.
    pub fn pick(self, quick: u64, thorough: u64) -> u64 {
        match self {
            Tier::Quick => quick,
            Tier::Thorough => thorough,
        }
    }
}

#[derive(Clone, Debug)]
pub struct Failure {
    /// Stable signature: call site + failing condition, no random data.
    pub sig: String,
    /// Human-readable details (may contain data).
    pub msg: String,
}

/// Per-case collector handed to `Prop::run`.
#[derive(Default)]
pub struct Ctx {
    pub failures: Vec<Failure>,
    pub classes: BTreeSet<String>,
    pub counters: BTreeMap<String, u64>,
    pub nontrivial: bool,
    pub skipped: Option<String>,
    /// Strict mode (replay): known-finding exclusions inside generators/oracles are off.
    pub strict: bool,
}
impl Ctx {
    pub fn fail(&mut self, sig: impl Into<String>, msg: impl Into<String>) {
        let sig = sig.into();
        if self.failures.iter().any(|f| f.sig == sig) {
            return;
        }
        self.failures.push(Failure {
            sig,
            msg: msg.into(),
        });
    }
    pub fn class(&mut self, c: impl Into<String>) {
        self.classes.insert(c.into());
    }
    pub fn count(&mut self, c: impl Into<String>, n: u64) {
        *self.counters.entry(c.into()).or_default() += n;
    }
    pub fn nontrivial(&mut self) {
        self.nontrivial = true;
    }
    pub fn skip(&mut self, why: impl Into<String>) {
        self.skipped = Some(why.into());
    }
}

pub trait Prop: Sync {
    type Case: Clone + std::fmt::Debug + Serialize + DeserializeOwned + Send + Sync + 'static;
    fn id(&self) -> &'static str;
    fn level(&self) -> &'static str {
        "exploration"
    }
    /// Random generator for the tier.
    fn strategy(&self, tier: Tier) -> BoxedStrategy<Self::Case>;
    /// Number of random cases for the tier.
    fn cases(&self, tier: Tier) -> u64;
    /// Enumerated (exhaustive) cases executed before the random ones.
    fn fixed_cases(&self, _tier: Tier) -> Vec<Self::Case> {
        Vec::new()
    }
    /// Description of the finite sub-domains enumerated by `fixed_cases`.
    fn exhaustive_subdomains(&self) -> Vec<String> {
        Vec::new()
    }
    fn run(&self, case: &Self::Case, ctx: &mut Ctx);
    fn rule(&self) -> String;
    fn assumptions(&self) -> Vec<String>;
    /// Extra work after the case loop (real threads, child processes, fuzz campaigns...).
    fn extra(&self, _tier: Tier, _seed: u64, _ev: &mut Extra) {}
    /// Max shrink iterations.
    fn shrink_budget(&self) -> u32 {
        400
    }
    /// Upper bound on worker threads (1 for checks that observe process-wide state).
    fn max_jobs(&self) -> usize {
        usize::MAX
    }
}

/// Results of `Prop::extra`.
#[derive(Default)]
pub struct Extra {
    pub failures: Vec<(Failure, Value)>,
    pub evaluations: u64,
    pub nontrivial_hashes: HashSet<u64>,
    pub classes: BTreeMap<String, u64>,
    pub notes: BTreeMap<String, Value>,
    pub samples: Vec<Value>,
    pub inconclusive: u64,
}

// ---------------------------------------------------------------------------------------
// Panic capture.

thread_local! {
    static LAST_PANIC: std::cell::RefCell<Option<(String, String)>> = const { std::cell::RefCell::new(None) };
    static QUIET_PANICS: std::cell::Cell<bool> = const { std::cell::Cell::new(false) };
}

pub fn install_panic_hook() {
    let default = std::panic::take_hook();
    std::panic::set_hook(Box::new(move |info| {
        let loc = info
            .location()
            .map(|l| format!("{}:{}", l.file(), l.line()))
            .unwrap_or_else(|| "?".into());
        let msg = if let Some(s) = info.payload().downcast_ref::<&str>() {
            (*s).to_string()
        } else if let Some(s) = info.payload().downcast_ref::<String>() {
            s.clone()
        } else {
            "<non-string panic>".into()
        };
        // keep the FIRST panic since the last `catch` began (runtimes re-panic with less detail)
        LAST_PANIC.with(|p| {
            let mut p = p.borrow_mut();
            if p.is_none() {
                *p = Some((loc, msg));
            }
        });
        let quiet = QUIET_PANICS.with(|q| q.get());
        if !quiet || std::env::var_os("VERIF_VERBOSE").is_some() {
            default(info);
        }
    }));
}

/// Info about a caught panic: (shortened location, message).
#[derive(Clone, Debug)]
pub struct PanicInfo {
    pub loc: String,
    pub msg: String,
}

fn shorten_loc(loc: &str) -> String {
    // /repo/src/foo.rs:12 -> src/foo.rs:12 ; registry paths -> crate/file
    if let Some(i) = loc.find("/repo/") {
        return loc[i + 6..].to_string();
    }
    if let Some(i) = loc.find("/registry/src/") {
        let rest = &loc[i + 14..];
        if let Some(j) = rest.find('/') {
            return rest[j + 1..].to_string();
        }
    }
    if let Some(i) = loc.find("/verif/harness/") {
        return format!("harness/{}", &loc[i + 15..]);
    }
    loc.to_string()
}

/// Run `f`, catching a panic quietly. Returns Err(PanicInfo) if it panicked.
pub fn catch<R>(f: impl FnOnce() -> R) -> Result<R, PanicInfo> {
    let prev = QUIET_PANICS.with(|q| q.replace(true));
    LAST_PANIC.with(|p| *p.borrow_mut() = None);
    let r = catch_unwind(AssertUnwindSafe(f));
    QUIET_PANICS.with(|q| q.set(prev));
    match r {
        Ok(v) => Ok(v),
        Err(_) => {
            let (loc, msg) = LAST_PANIC
                .with(|p| p.borrow_mut().take())
                .unwrap_or(("?".into(), "?".into()));
            Err(PanicInfo {
                loc: shorten_loc(&loc),
                msg,
            })
        }
    }
}

/// Location without the line number (signatures must survive small edits).
pub fn loc_file(loc: &str) -> String {
    match loc.rfind(':') {
        Some(i) => loc[..i].to_string(),
        None => loc.to_string(),
    }
}

// ---------------------------------------------------------------------------------------
// Known findings.

#[derive(Default, Debug)]
pub struct Known {
    /// (property, sig pattern, text)
    pub open: Vec<(String, String, String)>,
}

impl Known {
    pub fn load() -> Self {
        let p = Path::new(VERIF_DIR).join("known_findings.txt");
        let mut k = Known::default();
        let Ok(s) = std::fs::read_to_string(p) else {
            return k;
        };
        for line in s.lines() {
            let line = line.trim();
            if let Some(rest) = line.strip_prefix("finding:") {
                let mut prop = String::new();
                let mut sig = String::new();
                let mut text = Vec::new();
                for w in rest.split_whitespace() {
                    if let Some(v) = w.strip_prefix("property=") {
                        if prop.is_empty() {
                            prop = v.to_string();
                            continue;
                        }
                    }
                    if let Some(v) = w.strip_prefix("sig=") {
                        if sig.is_empty() {
                            sig = v.to_string();
                            continue;
                        }
                    }
                    text.push(w);
                }
                if !prop.is_empty() && !sig.is_empty() {
                    k.open.push((prop, sig, text.join(" ")));
                }
            }
        }
        k
    }
    /// Returns index of the matching open finding.
    pub fn matches(&self, prop: &str, sig: &str) -> Option<usize> {
        self.open.iter().position(|(p, pat, _)| {
            p == prop
                && (pat == sig
                    || (pat.ends_with('*') && sig.starts_with(&pat[..pat.len() - 1])))
        })
    }
}

// ---------------------------------------------------------------------------------------

fn splitmix(x: &mut u64) -> u64 {
    *x = x.wrapping_add(0x9E3779B97F4A7C15);
    let mut z = *x;
    z = (z ^ (z >> 30)).wrapping_mul(0xBF58476D1CE4E5B9);
    z = (z ^ (z >> 27)).wrapping_mul(0x94D049BB133111EB);
    z ^ (z >> 31)
}

pub fn make_runner(seed: u64, worker: u64) -> TestRunner {
    let mut s = seed ^ (worker.wrapping_mul(0xA24BAED4963EE407)).wrapping_add(0x1234_5678);
    let mut bytes = [0u8; 32];
    for c in bytes.chunks_mut(8) {
        c.copy_from_slice(&splitmix(&mut s).to_le_bytes());
    }
    let cfg = Config {
        failure_persistence: None,
        ..Config::default()
    };
    TestRunner::new_with_rng(cfg, TestRng::from_seed(RngAlgorithm::ChaCha, &bytes))
}

pub fn hash_json(v: &Value) -> u64 {
    let mut h = std::collections::hash_map::DefaultHasher::new();
    v.to_string().hash(&mut h);
    h.finish()
}

fn sample_value(v: &Value) -> Value {
    let s = v.to_string();
    if s.len() <= 3000 {
        v.clone()
    } else {
        let mut cut = 3000;
        while !s.is_char_boundary(cut) {
            cut -= 1;
        }
        json!({ "truncated_json": s[..cut].to_string(), "full_len": s.len() })
    }
}

fn sanitize(s: &str) -> String {
    s.chars()
        .map(|c| {
            if c.is_ascii_alphanumeric() || c == '-' || c == '_' || c == '.' {
                c
            } else {
                '_'
            }
        })
        .take(80)
        .collect()
}

#[derive(Default)]
struct Agg {
    evaluations: u64,
    nontrivial: HashSet<u64>,
    classes: BTreeMap<String, u64>,
    counters: BTreeMap<String, u64>,
    samples: Vec<Value>,
    skipped: BTreeMap<String, u64>,
    known_hits: BTreeMap<String, u64>,
    /// new violations: sig -> (msg, shrunk case json)
    violations: BTreeMap<String, (String, Value)>,
}

fn run_case<P: Prop>(p: &P, case: &P::Case, strict: bool) -> Ctx {
    let mut ctx = Ctx {
        strict,
        ..Ctx::default()
    };
    let r = catch(|| p.run(case, &mut ctx));
    rustradio::verif::set_stream_size(None);
    if let Err(pi) = r {
        ctx.fail(
            format!("{}/uncaught-panic/{}", p.id(), loc_file(&pi.loc)),
            format!("panic escaped the check at {}: {}", pi.loc, pi.msg),
        );
    }
    ctx
}

/// Shrink `tree` while the failure signature `sig` persists.
fn shrink<P: Prop, T: ValueTree<Value = P::Case>>(
    p: &P,
    tree: &mut T,
    sig: &str,
    first: P::Case,
    first_msg: String,
) -> (P::Case, String) {
    let mut best = first;
    let mut best_msg = first_msg;
    let mut iters = 0u32;
    let budget = p.shrink_budget();
    'outer: loop {
        if iters >= budget || !tree.simplify() {
            break;
        }
        loop {
            iters += 1;
            let c = tree.current();
            let ctx = run_case(p, &c, false);
            if let Some(f) = ctx.failures.iter().find(|f| f.sig == sig) {
                best = c;
                best_msg = f.msg.clone();
                break;
            }
            if iters >= budget || !tree.complicate() {
                break 'outer;
            }
        }
    }
    (best, best_msg)
}

fn absorb<P: Prop>(
    p: &P,
    agg: &mut Agg,
    known: &Known,
    case_json: &Value,
    ctx: &Ctx,
    keep_sample: bool,
) -> Vec<Failure> {
    agg.evaluations += 1;
    for c in &ctx.classes {
        *agg.classes.entry(c.clone()).or_default() += 1;
    }
    for (c, n) in &ctx.counters {
        *agg.counters.entry(c.clone()).or_default() += n;
    }
    if let Some(s) = &ctx.skipped {
        *agg.skipped.entry(s.clone()).or_default() += 1;
    }
    if ctx.nontrivial {
        let fresh = agg.nontrivial.insert(hash_json(case_json));
        if fresh && keep_sample && agg.samples.len() < 3 {
            agg.samples.push(sample_value(case_json));
        }
    }
    let mut new = Vec::new();
    for f in &ctx.failures {
        if let Some(i) = known.matches(p.id(), &f.sig) {
            *agg.known_hits.entry(known.open[i].1.clone()).or_default() += 1;
        } else {
            new.push(f.clone());
        }
    }
    new
}

pub struct RunOpts {
    pub tier: Tier,
    pub seed: u64,
    pub jobs: usize,
}

/// Runs a property. Returns the process exit code.
pub fn run_property<P: Prop>(p: &P, opts: &RunOpts) -> i32 {
    let opts = &RunOpts {
        tier: opts.tier,
        seed: opts.seed,
        jobs: opts.jobs.min(p.max_jobs()).max(1),
    };
    let t0 = Instant::now();
    let known = Known::load();
    let id = p.id();
    let agg = Mutex::new(Agg::default());
    let regress_dir = Path::new(VERIF_DIR).join("regress").join(id);
    let mut regress_run = 0u64;

    // Phase 0: committed regression cases (shrunk failures of repaired defects, seeded
    // mutants' minimal cases, ...).  Strictness: same as a normal run.
    if let Ok(rd) = std::fs::read_dir(&regress_dir) {
        let mut files: Vec<PathBuf> = rd.filter_map(|e| e.ok().map(|e| e.path())).collect();
        files.sort();
        for f in files {
            if f.extension().and_then(|e| e.to_str()) != Some("json") {
                continue;
            }
            let Ok(txt) = std::fs::read_to_string(&f) else {
                continue;
            };
            let Ok(v) = serde_json::from_str::<Value>(&txt) else {
                eprintln!("warning: unreadable regression file {}", f.display());
                continue;
            };
            let Ok(case) = serde_json::from_value::<P::Case>(v["case"].clone()) else {
                eprintln!("warning: stale regression file {}", f.display());
                continue;
            };
            let ctx = run_case(p, &case, false);
            let cj = serde_json::to_value(&case).unwrap();
            let mut a = agg.lock().unwrap();
            let new = absorb(p, &mut a, &known, &cj, &ctx, false);
            *a.classes.entry("regression-replay".into()).or_default() += 1;
            regress_run += 1;
            for fl in new {
                a.violations
                    .entry(fl.sig.clone())
                    .or_insert((fl.msg.clone(), cj.clone()));
            }
        }
    }

    // Phase 1: enumerated cases.
    let fixed = p.fixed_cases(opts.tier);
    let n_fixed = fixed.len() as u64;
    {
        let next = AtomicU64::new(0);
        let fixed = &fixed;
        std::thread::scope(|s| {
            for _ in 0..opts.jobs {
                s.spawn(|| {
                    let mut local = Agg::default();
                    loop {
                        let i = next.fetch_add(1, Ordering::Relaxed) as usize;
                        if i >= fixed.len() {
                            break;
                        }
                        let case = &fixed[i];
                        let ctx = run_case(p, case, false);
                        let cj = serde_json::to_value(case).unwrap();
                        let new = absorb(p, &mut local, &known, &cj, &ctx, i < 64);
                        for fl in new {
                            local
                                .violations
                                .entry(fl.sig.clone())
                                .or_insert((fl.msg.clone(), cj.clone()));
                        }
                    }
                    merge(&mut agg.lock().unwrap(), local);
                });
            }
        });
    }

    // Phase 2: random cases, sharded over workers.
    let total = p.cases(opts.tier);
    let stop = AtomicBool::new(false);
    std::thread::scope(|s| {
        for w in 0..opts.jobs {
            let agg = &agg;
            let known = &known;
            let stop = &stop;
            s.spawn(move || {
                let share = total / opts.jobs as u64
                    + if (w as u64) < total % opts.jobs as u64 { 1 } else { 0 };
                let mut runner = make_runner(opts.seed, w as u64);
                let strat = p.strategy(opts.tier);
                let mut local = Agg::default();
                for _ in 0..share {
                    if stop.load(Ordering::Relaxed) {
                        break;
                    }
                    let mut tree = match strat.new_tree(&mut runner) {
                        Ok(t) => t,
                        Err(e) => {
                            eprintln!("generator rejected: {e}");
                            continue;
                        }
                    };
                    let case = tree.current();
                    let ctx = run_case(p, &case, false);
                    let cj = serde_json::to_value(&case).unwrap();
                    let new = absorb(p, &mut local, known, &cj, &ctx, w == 0);
                    for fl in new {
                        if local.violations.contains_key(&fl.sig)
                            || agg.lock().unwrap().violations.contains_key(&fl.sig)
                        {
                            continue;
                        }
                        let (small, msg) =
                            shrink(p, &mut tree, &fl.sig, case.clone(), fl.msg.clone());
                        let sj = serde_json::to_value(&small).unwrap();
                        local.violations.insert(fl.sig.clone(), (msg, sj));
                        if local.violations.len() >= 40 {
                            stop.store(true, Ordering::Relaxed);
                        }
                    }
                }
                merge(&mut agg.lock().unwrap(), local);
            });
        }
    });

    // Phase 3: extra work.
    let mut extra = Extra::default();
    let er = catch(|| p.extra(opts.tier, opts.seed, &mut extra));
    if let Err(pi) = er {
        extra.failures.push((
            Failure {
                sig: format!("{id}/uncaught-panic-extra/{}", loc_file(&pi.loc)),
                msg: format!("panic in extra phase at {}: {}", pi.loc, pi.msg),
            },
            json!({"phase": "extra"}),
        ));
    }

    let mut agg = agg.into_inner().unwrap();
    agg.evaluations += extra.evaluations;
    for h in &extra.nontrivial_hashes {
        agg.nontrivial.insert(*h);
    }
    for (k, v) in &extra.classes {
        *agg.classes.entry(k.clone()).or_default() += v;
    }
    for s in &extra.samples {
        if agg.samples.len() < 6 {
            agg.samples.push(sample_value(s));
        }
    }
    for (f, cj) in &extra.failures {
        if let Some(i) = known.matches(id, &f.sig) {
            *agg.known_hits.entry(known.open[i].1.clone()).or_default() += 1;
        } else {
            agg.violations
                .entry(f.sig.clone())
                .or_insert((f.msg.clone(), cj.clone()));
        }
    }

    // Report.
    let mut exit = 0;
    for (pat, n) in &agg.known_hits {
        let text = known
            .open
            .iter()
            .find(|(pp, s, _)| pp == id && s == pat)
            .map(|x| x.2.clone())
            .unwrap_or_default();
        println!("KNOWN-FINDING: property={id} sig={pat} hits={n} {text}");
    }
    let replay_dir = Path::new(VERIF_DIR).join("replays");
    let _ = std::fs::create_dir_all(&replay_dir);
    for (sig, (msg, cj)) in &agg.violations {
        let h = hash_json(cj);
        let path = replay_dir.join(format!("{}-{:08x}.json", sanitize(sig), h as u32));
        let body = json!({"property": id, "sig": sig, "msg": msg, "case": cj});
        let _ = std::fs::write(&path, serde_json::to_string_pretty(&body).unwrap());
        println!("VIOLATION property={id} replay={}", path.display());
        println!("  sig={sig}");
        let m: String = msg.chars().take(1500).collect();
        println!("  {m}");
        exit = 1;
    }

    if agg.samples.is_empty() {
        // No non-trivial sample was kept (should not happen); keep evidence valid anyway.
        agg.samples.push(json!("no non-trivial case sampled"));
    }
    let coverage = json!({
        "evaluations": agg.evaluations,
        "distinct_nontrivial": agg.nontrivial.len(),
        "rule": p.rule(),
        "samples": agg.samples,
        "classes": agg.classes,
        "counters": agg.counters,
        "enumerated_cases": n_fixed,
        "regression_replays": regress_run,
        "random_cases": total,
        "exhaustive_subdomains": p.exhaustive_subdomains(),
        "excluded_or_skipped": agg.skipped,
        "known_findings_hit": agg.known_hits,
        "inconclusive": extra.inconclusive,
        "extra": extra.notes,
        "jobs": opts.jobs,
    });
    let ev = json!({
        "property_id": id,
        "tier": opts.tier.name(),
        "seed": opts.seed,
        "level": p.level(),
        "coverage": coverage,
        "assumptions": p.assumptions(),
        "wall_s": t0.elapsed().as_secs_f64(),
        "violations": agg.violations.len(),
    });
    let evdir = Path::new(VERIF_DIR).join("evidence");
    let _ = std::fs::create_dir_all(&evdir);
    if let Err(e) = std::fs::write(
        evdir.join(format!("{id}{}.json", std::env::var("VERIF_EVIDENCE_SUFFIX").unwrap_or_default())),
        serde_json::to_string_pretty(&ev).unwrap(),
    ) {
        eprintln!("cannot write evidence: {e}");
        return if exit == 1 { 1 } else { 2 };
    }
    println!(
        "{id} {}: {} cases ({} enumerated, {} regression), {} distinct non-trivial, {} known-finding hits, {} violations, {:.1}s",
        opts.tier.name(),
        agg.evaluations,
        n_fixed,
        regress_run,
        agg.nontrivial.len(),
        agg.known_hits.values().sum::<u64>(),
        agg.violations.len(),
        t0.elapsed().as_secs_f64()
    );
    exit
}

fn merge(dst: &mut Agg, src: Agg) {
    dst.evaluations += src.evaluations;
    dst.nontrivial.extend(src.nontrivial);
    for (k, v) in src.classes {
        *dst.classes.entry(k).or_default() += v;
    }
    for (k, v) in src.counters {
        *dst.counters.entry(k).or_default() += v;
    }
    for (k, v) in src.skipped {
        *dst.skipped.entry(k).or_default() += v;
    }
    for (k, v) in src.known_hits {
        *dst.known_hits.entry(k).or_default() += v;
    }
    for s in src.samples {
        if dst.samples.len() < 3 {
            dst.samples.push(s);
        }
    }
    for (k, v) in src.violations {
        dst.violations.entry(k).or_insert(v);
    }
}

/// Replay one saved case in strict mode. Exit code 0/1/2.
pub fn replay_property<P: Prop>(p: &P, file: &str) -> i32 {
    let Ok(txt) = std::fs::read_to_string(file) else {
        eprintln!("cannot read {file}");
        return 2;
    };
    let Ok(v) = serde_json::from_str::<Value>(&txt) else {
        eprintln!("not JSON: {file}");
        return 2;
    };
    let cv = if v.get("case").is_some() {
        v["case"].clone()
    } else {
        v.clone()
    };
    let case: P::Case = match serde_json::from_value(cv) {
        Ok(c) => c,
        Err(e) => {
            eprintln!("replay file does not hold a {} case: {e}", p.id());
            return 2;
        }
    };
    let ctx = run_case(p, &case, true);
    if ctx.failures.is_empty() {
        println!("{} replay: held on {file}", p.id());
        0
    } else {
        for f in &ctx.failures {
            println!("VIOLATION property={} replay={file}", p.id());
            println!("  sig={}", f.sig);
            let m: String = f.msg.chars().take(3000).collect();
            println!("  {m}");
        }
        1
    }
}
