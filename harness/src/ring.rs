//! E1: reference model of a stream ring (samples + tags) and the interpreter that
//! applies one generated operation history to the real `Buffer<T>` / `new_stream::<T>()`
//! and to the model, comparing the whole observable state after every operation.
use std::collections::VecDeque;
use std::sync::Arc;

use proptest::prelude::*;
use rustradio::Complex;
use rustradio::circular_buffer::{Buffer, BufferReader, BufferWriter};
use rustradio::stream::{ReadStream, Tag, TagValue, WriteStream, new_stream};
use serde::{Deserialize, Serialize};

use crate::engine::{Ctx, catch};

#[derive(Clone, Copy, Debug, Serialize, Deserialize, PartialEq, Eq, Hash)]
pub enum ElemKind {
    U8,
    U16,
    U32,
    U64,
    B16,
    F32,
    C32,
    /// 3 bytes: does not divide a page.
    B3,
    /// 12 bytes: does not divide a page.
    B12,
    /// zero-sized type
    Zst,
}
impl ElemKind {
    pub fn size(self) -> usize {
        match self {
            ElemKind::U8 => 1,
            ElemKind::U16 => 2,
            ElemKind::U32 => 4,
            ElemKind::U64 => 8,
            ElemKind::B16 => 16,
            ElemKind::F32 => 4,
            ElemKind::C32 => 8,
            ElemKind::B3 => 3,
            ElemKind::B12 => 12,
            ElemKind::Zst => 0,
        }
    }
}

pub trait Elem: Copy + Send + Sync + 'static {
    fn make(ctr: u64) -> Self;
    fn bits(&self) -> u128;
}
fn scramble(mut x: u64) -> u64 {
    x = x.wrapping_add(0x9E3779B97F4A7C15);
    x = (x ^ (x >> 30)).wrapping_mul(0xBF58476D1CE4E5B9);
    x = (x ^ (x >> 27)).wrapping_mul(0x94D049BB133111EB);
    x ^ (x >> 31)
}
impl Elem for u8 {
    fn make(c: u64) -> Self {
        scramble(c) as u8
    }
    fn bits(&self) -> u128 {
        *self as u128
    }
}
impl Elem for u16 {
    fn make(c: u64) -> Self {
        scramble(c) as u16
    }
    fn bits(&self) -> u128 {
        *self as u128
    }
}
impl Elem for u32 {
    fn make(c: u64) -> Self {
        scramble(c) as u32
    }
    fn bits(&self) -> u128 {
        *self as u128
    }
}
impl Elem for u64 {
    fn make(c: u64) -> Self {
        scramble(c)
    }
    fn bits(&self) -> u128 {
        *self as u128
    }
}
impl Elem for [u8; 16] {
    fn make(c: u64) -> Self {
        let a = scramble(c) as u128;
        let b = scramble(c ^ 0xdead_beef) as u128;
        ((a << 64) | b).to_le_bytes()
    }
    fn bits(&self) -> u128 {
        u128::from_le_bytes(*self)
    }
}
impl Elem for f32 {
    fn make(c: u64) -> Self {
        // every bit pattern, NaN payloads included
        f32::from_bits(scramble(c) as u32)
    }
    fn bits(&self) -> u128 {
        self.to_bits() as u128
    }
}
impl Elem for Complex {
    fn make(c: u64) -> Self {
        let x = scramble(c);
        Complex::new(f32::from_bits(x as u32), f32::from_bits((x >> 32) as u32))
    }
    fn bits(&self) -> u128 {
        ((self.re.to_bits() as u128) << 32) | self.im.to_bits() as u128
    }
}
impl Elem for [u8; 3] {
    fn make(c: u64) -> Self {
        let x = scramble(c).to_le_bytes();
        [x[0], x[1], x[2]]
    }
    fn bits(&self) -> u128 {
        (self[0] as u128) | ((self[1] as u128) << 8) | ((self[2] as u128) << 16)
    }
}
impl Elem for [u8; 12] {
    fn make(c: u64) -> Self {
        let x = scramble(c).to_le_bytes();
        let y = scramble(c ^ 77).to_le_bytes();
        [
            x[0], x[1], x[2], x[3], x[4], x[5], x[6], x[7], y[0], y[1], y[2], y[3],
        ]
    }
    fn bits(&self) -> u128 {
        let mut b = [0u8; 16];
        b[..12].copy_from_slice(self);
        u128::from_le_bytes(b)
    }
}
impl Elem for () {
    fn make(_: u64) -> Self {}
    fn bits(&self) -> u128 {
        0
    }
}

/// Size selector, resolved against the live state so that cases shrink well.
#[derive(Clone, Copy, Debug, Serialize, Deserialize, PartialEq, Eq)]
pub enum Sz {
    Zero,
    One,
    Two,
    All,
    AllM1,
    /// exactly up to the wrap point
    Wrap,
    WrapM1,
    WrapP1,
    /// fraction/65536 of what is available
    Frac(u16),
}
impl Sz {
    pub fn resolve(self, avail: usize, to_wrap: usize) -> usize {
        let v = match self {
            Sz::Zero => 0,
            Sz::One => 1,
            Sz::Two => 2,
            Sz::All => avail,
            Sz::AllM1 => avail.saturating_sub(1),
            Sz::Wrap => to_wrap,
            Sz::WrapM1 => to_wrap.saturating_sub(1),
            Sz::WrapP1 => to_wrap + 1,
            Sz::Frac(f) => ((avail as u64 + 1) * f as u64 >> 16) as usize,
        };
        v.min(avail)
    }
}
pub fn sz_strategy() -> impl Strategy<Value = Sz> {
    prop_oneof![
        1 => Just(Sz::Zero),
        2 => Just(Sz::One),
        1 => Just(Sz::Two),
        3 => Just(Sz::All),
        1 => Just(Sz::AllM1),
        2 => Just(Sz::Wrap),
        1 => Just(Sz::WrapM1),
        2 => Just(Sz::WrapP1),
        6 => any::<u16>().prop_map(Sz::Frac),
    ]
}

#[derive(Clone, Copy, Debug, Serialize, Deserialize, PartialEq)]
pub enum TVal {
    S(u8),
    F(i16),
    B(bool),
    U(u64),
}
impl TVal {
    pub fn to_tag_value(self) -> TagValue {
        match self {
            TVal::S(x) => TagValue::String(format!("s{x}")),
            TVal::F(x) => TagValue::Float(x as f32 / 8.0),
            TVal::B(b) => TagValue::Bool(b),
            TVal::U(u) => TagValue::U64(u),
        }
    }
}
pub fn tval_strategy() -> impl Strategy<Value = TVal> {
    prop_oneof![
        (0u8..4).prop_map(TVal::S),
        any::<i16>().prop_map(TVal::F),
        any::<bool>().prop_map(TVal::B),
        prop_oneof![Just(0u64), Just(u64::MAX), any::<u64>()].prop_map(TVal::U),
    ]
}

/// Where in the committed range [0,n) a tag goes.
#[derive(Clone, Copy, Debug, Serialize, Deserialize, PartialEq, Eq)]
pub enum PosSel {
    First,
    Last,
    /// last sample before the wrap point (if inside the commit, else First)
    WrapM1,
    /// first sample after the wrap point (if inside the commit, else Last)
    Wrap,
    Frac(u16),
}
impl PosSel {
    fn resolve(self, n: usize, to_wrap: usize) -> usize {
        debug_assert!(n > 0);
        match self {
            PosSel::First => 0,
            PosSel::Last => n - 1,
            PosSel::WrapM1 => {
                if to_wrap >= 1 && to_wrap - 1 < n {
                    to_wrap - 1
                } else {
                    0
                }
            }
            PosSel::Wrap => {
                if to_wrap < n {
                    to_wrap
                } else {
                    n - 1
                }
            }
            PosSel::Frac(f) => ((n as u64 * f as u64) >> 16) as usize,
        }
    }
}
pub fn possel_strategy() -> impl Strategy<Value = PosSel> {
    prop_oneof![
        2 => Just(PosSel::First),
        2 => Just(PosSel::Last),
        2 => Just(PosSel::WrapM1),
        2 => Just(PosSel::Wrap),
        3 => any::<u16>().prop_map(PosSel::Frac),
    ]
}

#[derive(Clone, Debug, Serialize, Deserialize, PartialEq)]
pub struct TagSpec {
    pub pos: PosSel,
    pub key: u8,
    pub val: TVal,
    /// offered with a position in the filled but *uncommitted* part of the window (pos >= n):
    /// such a tag belongs to a later commit and must not be stored by this one
    #[serde(default)]
    pub beyond: bool,
}
pub fn tagspec_strategy() -> impl Strategy<Value = TagSpec> {
    (possel_strategy(), 0u8..3, tval_strategy(), prop::bool::weighted(0.2)).prop_map(|(pos, key, val, beyond)| TagSpec { pos, key, val, beyond })
}
pub fn key_name(k: u8) -> &'static str {
    ["ka", "kb", "kc", "kd"][(k & 3) as usize]
}

#[derive(Clone, Debug, Serialize, Deserialize, PartialEq)]
pub enum Op {
    Write {
        fill: Sz,
        commit: Sz,
        tags: Vec<TagSpec>,
    },
    Read {
        consume: Sz,
    },
    Peek,
    Commit0,
    Consume0,
    OverCommit {
        extra: u8,
    },
    OverConsume {
        extra: u8,
    },
    /// two write windows are taken out; the second one is committed in full and uses up the
    /// room; a commit of 1 + extra (mod window) samples through the first, now stale, window is
    /// larger than what the stream can honour and must be refused (terminal)
    StaleOverCommit { extra: u8 },
    /// acquire a write window, fill `fill` samples, and keep the window open
    HoldWrite {
        fill: Sz,
    },
    /// commit from the held write window
    CommitHeld {
        commit: Sz,
        tags: Vec<TagSpec>,
    },
    /// acquire a read window (checked) and keep it open
    HoldRead,
    /// re-check and consume from the held read window
    ConsumeHeld {
        consume: Sz,
    },
}

pub fn op_strategy(tag_heavy: bool) -> impl Strategy<Value = Op> {
    let tags = if tag_heavy {
        prop::collection::vec(tagspec_strategy(), 0..6).boxed()
    } else {
        prop_oneof![
            3 => Just(Vec::new()),
            1 => prop::collection::vec(tagspec_strategy(), 0..3),
        ]
        .boxed()
    };
    prop_oneof![
        10 => (sz_strategy(), sz_strategy(), tags).prop_map(|(fill, commit, tags)| Op::Write { fill, commit, tags }),
        10 => sz_strategy().prop_map(|consume| Op::Read { consume }),
        2 => Just(Op::Peek),
        1 => Just(Op::Commit0),
        if tag_heavy { 3 } else { 1 } => Just(Op::Consume0),
        // windows held across operations of the other side
        3 => sz_strategy().prop_map(|fill| Op::HoldWrite { fill }),
        3 => (sz_strategy(), prop::collection::vec(tagspec_strategy(), 0..3)).prop_map(|(commit, tags)| Op::CommitHeld { commit, tags }),
        3 => Just(Op::HoldRead),
        3 => sz_strategy().prop_map(|consume| Op::ConsumeHeld { consume }),
    ]
}

#[derive(Clone, Debug, Serialize, Deserialize, PartialEq)]
pub struct RingCase {
    pub elem: ElemKind,
    pub size_bytes: usize,
    pub via_stream: bool,
    pub ops: Vec<Op>,
    /// Optional terminal over-commit/over-consume.
    pub terminal: Option<Op>,
}

pub const GOOD_SIZES: &[usize] = &[4096, 8192, 12288, 16384, 32768];
pub const BAD_SIZES: &[usize] = &[0, 1, 100, 2048, 4097, 6144];

pub fn ring_case_strategy(tag_heavy: bool, max_ops: usize) -> BoxedStrategy<RingCase> {
    let elem = prop_oneof![
        3 => Just(ElemKind::U8),
        1 => Just(ElemKind::U16),
        2 => Just(ElemKind::U32),
        2 => Just(ElemKind::U64),
        2 => Just(ElemKind::B16),
        2 => Just(ElemKind::F32),
        2 => Just(ElemKind::C32),
        1 => Just(ElemKind::B3),
        1 => Just(ElemKind::B12),
    ];
    let size = prop::sample::select(GOOD_SIZES);
    let terminal = prop_oneof![
        6 => Just(None),
        1 => any::<u8>().prop_map(|extra| Some(Op::OverCommit { extra })),
        1 => any::<u8>().prop_map(|extra| Some(Op::OverConsume { extra })),
        1 => any::<u8>().prop_map(|extra| Some(Op::StaleOverCommit { extra })),
    ];
    (
        elem,
        size,
        any::<bool>(),
        prop::collection::vec(op_strategy(tag_heavy), 0..max_ops),
        terminal,
    )
        .prop_map(|(elem, size_bytes, via_stream, ops, terminal)| RingCase {
            elem,
            size_bytes,
            via_stream,
            ops,
            terminal,
        })
        .boxed()
}

enum Ring<T: Copy> {
    Buf(Arc<Buffer<T>>),
    Stream(WriteStream<T>, ReadStream<T>),
}
impl<T: Copy> Ring<T> {
    fn write_buf(&self) -> rustradio::Result<BufferWriter<T>> {
        match self {
            Ring::Buf(b) => b.clone().write_buf(),
            Ring::Stream(w, _) => w.write_buf(),
        }
    }
    fn read_buf(&self) -> rustradio::Result<(BufferReader<T>, Vec<Tag>)> {
        match self {
            Ring::Buf(b) => b.clone().read_buf(),
            Ring::Stream(_, r) => r.read_buf(),
        }
    }
    fn free(&self) -> usize {
        match self {
            Ring::Buf(b) => b.free(),
            Ring::Stream(w, _) => w.free(),
        }
    }
    fn total_size(&self) -> usize {
        match self {
            Ring::Buf(b) => b.total_size(),
            Ring::Stream(_, r) => r.total_size(),
        }
    }
}

type MTag = (String, TagValue);

struct Model {
    cap: usize,
    q: VecDeque<(u128, Vec<MTag>)>,
    committed: u64,
    consumed: u64,
}
impl Model {
    fn used(&self) -> usize {
        self.q.len()
    }
    fn free(&self) -> usize {
        self.cap - self.q.len()
    }
    fn wpos(&self) -> usize {
        (self.committed % self.cap as u64) as usize
    }
    fn rpos(&self) -> usize {
        (self.consumed % self.cap as u64) as usize
    }
}

/// Which family of oracles report failures (the interpreter is shared by C01/C02/C18).
#[derive(Clone, Copy, PartialEq, Eq)]
pub enum Focus {
    Samples,
    Tags,
}

pub fn run_ring_case(pid: &str, case: &RingCase, focus: Focus, ctx: &mut Ctx) {
    match case.elem {
        ElemKind::U8 => run_t::<u8>(pid, case, focus, ctx),
        ElemKind::U16 => run_t::<u16>(pid, case, focus, ctx),
        ElemKind::U32 => run_t::<u32>(pid, case, focus, ctx),
        ElemKind::U64 => run_t::<u64>(pid, case, focus, ctx),
        ElemKind::B16 => run_t::<[u8; 16]>(pid, case, focus, ctx),
        ElemKind::F32 => run_t::<f32>(pid, case, focus, ctx),
        ElemKind::C32 => run_t::<Complex>(pid, case, focus, ctx),
        ElemKind::B3 => run_t::<[u8; 3]>(pid, case, focus, ctx),
        ElemKind::B12 => run_t::<[u8; 12]>(pid, case, focus, ctx),
        ElemKind::Zst => run_t::<()>(pid, case, focus, ctx),
    }
}

fn make_ring<T: Elem>(case: &RingCase) -> Result<Result<Ring<T>, String>, crate::engine::PanicInfo> {
    if case.via_stream {
        rustradio::verif::set_stream_size(Some(case.size_bytes));
        let r = catch(|| new_stream::<T>());
        rustradio::verif::set_stream_size(None);
        r.map(|(w, r)| Ok(Ring::Stream(w, r)))
    } else {
        catch(|| match Buffer::<T>::new(case.size_bytes) {
            Ok(b) => Ok(Ring::Buf(Arc::new(b))),
            Err(e) => Err(format!("{e}")),
        })
    }
}

fn run_t<T: Elem>(pid: &str, case: &RingCase, focus: Focus, ctx: &mut Ctx) {
    let esz = std::mem::size_of::<T>();
    let divides = esz != 0 && case.size_bytes % esz == 0;
    let page_ok = case.size_bytes != 0 && case.size_bytes % 4096 == 0;
    let label = if !divides { "nondividing" } else { "dividing" };
    ctx.class(format!("elem={:?}", case.elem));
    ctx.class(if case.via_stream { "via=new_stream" } else { "via=Buffer::new" });

    let ring = match make_ring::<T>(case) {
        Err(pi) => {
            // Construction panicked.  For new_stream() that is how a set-up error surfaces
            // (it unwraps); for Buffer::new a panic instead of Err is a violation when the
            // configuration is invalid, and always one when it is valid.
            if case.via_stream && (!divides || !page_ok) {
                ctx.class("setup=refused(panic in new_stream)");
                return;
            }
            ctx.fail(
                format!("{pid}/setup-panic/{}", crate::engine::loc_file(&pi.loc)),
                format!(
                    "constructing a {}-byte ring of {:?} panicked at {}: {}",
                    case.size_bytes, case.elem, pi.loc, pi.msg
                ),
            );
            return;
        }
        Ok(Err(e)) => {
            if divides && page_ok {
                ctx.fail(
                    format!("{pid}/setup-refused-valid"),
                    format!("Buffer::new({}) for {:?} failed: {e}", case.size_bytes, case.elem),
                );
            } else {
                ctx.class("setup=refused(Err)");
            }
            return;
        }
        Ok(Ok(r)) => r,
    };
    if !page_ok {
        ctx.fail(
            format!("{pid}/setup-accepted-non-page-multiple"),
            format!("a ring of {} bytes was accepted", case.size_bytes),
        );
        return;
    }
    if esz == 0 {
        // accepted ZST: any use divides by zero; report as set-up acceptance
        ctx.fail(
            format!("{pid}/setup-accepted/zero-sized-element"),
            "a ring of zero-sized elements was accepted".to_string(),
        );
        return;
    }
    if !divides {
        ctx.class("setup=accepted-nondividing");
    }
    if esz >= 8 {
        ctx.nontrivial();
    }

    let cap = case.size_bytes / esz;
    let mut m = Model {
        cap,
        q: VecDeque::new(),
        committed: 0,
        consumed: 0,
    };
    let mut ctr = 1u64;
    // C02 non-triviality tracking
    let mut partial_consume_left_tags = false;

    // windows held open across other operations: (window, filled, to_wrap at acquisition)
    let mut held_w: Option<(BufferWriter<T>, usize, usize)> = None;
    let mut held_r: Option<BufferReader<T>> = None;
    let all_ops = case.ops.iter().chain(case.terminal.iter());
    for (opi, op) in all_ops.enumerate() {
        // one window per side: ops that would open a second one are skipped
        let needs_w = matches!(op, Op::Write { .. } | Op::Commit0 | Op::OverCommit { .. } | Op::HoldWrite { .. } | Op::StaleOverCommit { .. });
        let needs_r = matches!(op, Op::Read { .. } | Op::Peek | Op::Consume0 | Op::OverConsume { .. } | Op::HoldRead);
        if (needs_w && held_w.is_some()) || (needs_r && held_r.is_some()) {
            continue;
        }
        if matches!(op, Op::CommitHeld { .. }) && held_w.is_none() || matches!(op, Op::ConsumeHeld { .. }) && held_r.is_none() {
            continue;
        }
        let step = catch(|| -> Result<bool, (String, String)> {
            // returns Ok(true) if terminal
            match op {
                Op::Write { fill, commit, tags } => {
                    let mut w = ring.write_buf().map_err(|e| ("write_buf-err".to_string(), format!("{e}")))?;
                    if w.len() != m.free() {
                        return Err((
                            "write-window-len".into(),
                            format!("op#{opi}: write window has {} slots, model says {} free", w.len(), m.free()),
                        ));
                    }
                    let to_wrap = m.cap - m.wpos();
                    let k = fill.resolve(w.len(), to_wrap);
                    let n = commit.resolve(k, to_wrap);
                    {
                        let value = |i: usize| if i < n { T::make(ctr + i as u64) } else { T::make(0xffff_0000_0000 + i as u64) };
                        // three ways to fill a window: through the slice, and through the two
                        // fill shortcuts - with an iterator that knows its length and with one
                        // that does not (a filter adaptor: size hint (0, Some(k)))
                        match (opi + k) % 4 {
                            0 => {
                                w.fill_from_iter((0..k).map(value));
                                ctx.class("fill_from_iter (exact size)");
                            }
                            1 => {
                                w.fill_from_iter((0..k).filter(|i| *i < usize::MAX).map(value));
                                ctx.class("fill_from_iter (size unknown)");
                            }
                            2 => {
                                let v: Vec<T> = (0..k).map(value).collect();
                                w.fill_from_slice(&v);
                            }
                            _ => {
                                let s = w.slice();
                                for (i, slot) in s.iter_mut().enumerate().take(k) {
                                    *slot = value(i);
                                }
                            }
                        }
                    }
                    let mut per: Vec<Vec<MTag>> = vec![Vec::new(); n];
                    let mut tv = Vec::new();
                    if n > 0 {
                        for t in tags {
                            let val = t.val.to_tag_value();
                            if t.beyond && k > n {
                                // in the filled part behind the commit: offered, not stored
                                let pos = n + t.pos.resolve(k - n, to_wrap.saturating_sub(n));
                                tv.push(Tag::new(pos, key_name(t.key), val));
                                ctx.class("tag-offered-beyond-the-commit");
                                continue;
                            }
                            let pos = t.pos.resolve(n, to_wrap);
                            tv.push(Tag::new(pos, key_name(t.key), val.clone()));
                            per[pos].push((key_name(t.key).to_string(), val));
                        }
                    }
                    if n > 0 && m.used() > 0 && n > to_wrap {
                        ctx.class("commit-crosses-wrap-with-nonempty-reader");
                        if focus == Focus::Samples {
                            ctx.nontrivial();
                        }
                    }
                    w.produce(n, &tv);
                    for (i, p) in per.into_iter().enumerate() {
                        m.q.push_back((T::make(ctr + i as u64).bits(), p));
                    }
                    ctr += n as u64;
                    m.committed += n as u64;
                    if m.free() == 0 && m.rpos() != 0 {
                        ctx.class("full-at-nonzero-offset");
                        if focus == Focus::Samples {
                            ctx.nontrivial();
                        }
                    }
                }
                Op::Commit0 => {
                    let w = ring.write_buf().map_err(|e| ("write_buf-err".to_string(), format!("{e}")))?;
                    w.produce(0, &[]);
                }
                Op::Read { .. } | Op::Peek | Op::Consume0 => {
                    let (r, tags) = ring.read_buf().map_err(|e| ("read_buf-err".to_string(), format!("{e}")))?;
                    check_window::<T>(&m, &r, &tags, opi, focus, ctx)?;
                    let consume = match op {
                        Op::Read { consume } => Some(*consume),
                        Op::Consume0 => Some(Sz::Zero),
                        _ => None,
                    };
                    if let Some(c) = consume {
                        let to_wrap = m.cap - m.rpos();
                        let k = c.resolve(r.len(), to_wrap);
                        let tags_buffered = m.q.iter().any(|(_, t)| !t.is_empty());
                        if k == 0 && tags_buffered {
                            ctx.class("consume0-with-tags-buffered");
                            if focus == Focus::Tags {
                                ctx.nontrivial();
                            }
                        }
                        r.consume(k);
                        for _ in 0..k {
                            m.q.pop_front();
                        }
                        m.consumed += k as u64;
                        if k > 0 && m.q.iter().any(|(_, t)| !t.is_empty()) {
                            partial_consume_left_tags = true;
                        }
                    }
                }
                Op::HoldWrite { fill } => {
                    let mut w = ring.write_buf().map_err(|e| ("write_buf-err".to_string(), format!("{e}")))?;
                    if w.len() != m.free() {
                        return Err(("write-window-len".into(), format!("op#{opi}: write window has {} slots, model says {} free", w.len(), m.free())));
                    }
                    let to_wrap = m.cap - m.wpos();
                    let k = fill.resolve(w.len(), to_wrap);
                    for (i, slot) in w.slice().iter_mut().enumerate().take(k) {
                        *slot = T::make(ctr + i as u64);
                    }
                    held_w = Some((w, k, to_wrap));
                    ctx.class("write-window-held-across-ops");
                }
                Op::CommitHeld { commit, tags } => {
                    let (w, k, to_wrap) = held_w.take().unwrap();
                    let n = commit.resolve(k, to_wrap);
                    let mut per: Vec<Vec<MTag>> = vec![Vec::new(); n];
                    let mut tv = Vec::new();
                    if n > 0 {
                        for t in tags {
                            let pos = t.pos.resolve(n, to_wrap);
                            let val = t.val.to_tag_value();
                            tv.push(Tag::new(pos, key_name(t.key), val.clone()));
                            per[pos].push((key_name(t.key).to_string(), val));
                        }
                    }
                    w.produce(n, &tv);
                    for (i, p) in per.into_iter().enumerate() {
                        m.q.push_back((T::make(ctr + i as u64).bits(), p));
                    }
                    ctr += n as u64;
                    m.committed += n as u64;
                    if focus == Focus::Samples {
                        ctx.nontrivial();
                    }
                }
                Op::HoldRead => {
                    let (r, tags) = ring.read_buf().map_err(|e| ("read_buf-err".to_string(), format!("{e}")))?;
                    check_window::<T>(&m, &r, &tags, opi, focus, ctx)?;
                    held_r = Some(r);
                    ctx.class("read-window-held-across-ops");
                }
                Op::ConsumeHeld { consume } => {
                    let r = held_r.take().unwrap();
                    // the held window still shows the first `len` samples of the model queue
                    let got: Vec<u128> = r.slice().iter().map(|x| x.bits()).collect();
                    for (i, g) in got.iter().enumerate() {
                        if i >= m.q.len() || *g != m.q[i].0 {
                            return Err((
                                "read-mismatch".into(),
                                format!("op#{opi}: sample {i} of a read window held across {} later commits changed to {g:#x}", m.q.len().saturating_sub(got.len())),
                            ));
                        }
                    }
                    let to_wrap = m.cap - m.rpos();
                    let k = consume.resolve(r.len(), to_wrap);
                    r.consume(k);
                    for _ in 0..k {
                        m.q.pop_front();
                    }
                    m.consumed += k as u64;
                }
                Op::OverCommit { extra } => {
                    let w = ring.write_buf().map_err(|e| ("write_buf-err".to_string(), format!("{e}")))?;
                    let n = w.len() + 1 + *extra as usize;
                    let r = catch(|| w.produce(n, &[]));
                    if r.is_ok() {
                        return Err((
                            "over-commit-accepted".into(),
                            format!("op#{opi}: commit of {n} with only {} free was accepted", m.free()),
                        ));
                    }
                    return Ok(true);
                }
                Op::StaleOverCommit { extra } => {
                    if held_r.is_some() {
                        // a stream allows at most four handles: both ends, and two windows
                        return Ok(true);
                    }
                    let w1 = ring.write_buf().map_err(|e| ("write_buf-err".to_string(), format!("{e}")))?;
                    let w2 = ring.write_buf().map_err(|e| ("write_buf-err".to_string(), format!("{e}")))?;
                    let room = w2.len();
                    if room == 0 || w1.len() != room {
                        return Ok(true);
                    }
                    w2.produce(room, &[]);
                    let n = 1 + (*extra as usize) % w1.len();
                    ctx.class("stale-window-over-commit");
                    let r = catch(|| w1.produce(n, &[]));
                    if r.is_ok() {
                        return Err((
                            "over-commit-accepted".into(),
                            format!("op#{opi}: a second write window committed all {room} free samples; a commit of {n} through the first window, with 0 free, was accepted"),
                        ));
                    }
                    return Ok(true);
                }
                Op::OverConsume { extra } => {
                    let (r, _) = ring.read_buf().map_err(|e| ("read_buf-err".to_string(), format!("{e}")))?;
                    let n = r.len() + 1 + *extra as usize;
                    let res = catch(|| r.consume(n));
                    if res.is_ok() {
                        return Err((
                            "over-consume-accepted".into(),
                            format!("op#{opi}: consume of {n} with only {} readable was accepted", m.used()),
                        ));
                    }
                    return Ok(true);
                }
            }
            // invariants after every op
            let free = ring.free();
            let total = ring.total_size();
            if held_w.is_some() || held_r.is_some() {
                // no further windows while one is held (streams cap the handle count)
                if total != m.cap || free != m.free() {
                    return Err((
                        "capacity-accounting".into(),
                        format!("op#{opi} {op:?}: total_size={total} free()={free}; model cap={} free={}", m.cap, m.free()),
                    ));
                }
                return Ok(false);
            }
            let rl = ring.read_buf().map_err(|e| ("read_buf-err".to_string(), format!("{e}")))?.0.len();
            let wl = ring.write_buf().map_err(|e| ("write_buf-err".to_string(), format!("{e}")))?.len();
            if total != m.cap || free != m.free() || rl != m.used() || wl != m.free() || rl + wl != total {
                return Err((
                    "capacity-accounting".into(),
                    format!(
                        "op#{opi} {op:?}: total_size={total} free()={free} readable={rl} writable={wl}; model cap={} used={} free={}",
                        m.cap,
                        m.used(),
                        m.free()
                    ),
                ));
            }
            Ok(false)
        });
        match step {
            Ok(Ok(false)) => {}
            Ok(Ok(true)) => {
                ctx.class("terminal-over-op-refused");
                // After a refused over-commit/over-consume nothing divergent may be readable.
                let after = catch(|| ring.read_buf().ok().map(|(r, t)| (r.slice().iter().map(|x| x.bits()).collect::<Vec<_>>(), t.len())));
                if let Ok(Some((bits, _))) = after {
                    let want: Vec<u128> = m.q.iter().map(|x| x.0).collect();
                    if bits != want && focus == Focus::Samples {
                        ctx.fail(
                            format!("{pid}/divergent-read-after-refusal/{label}"),
                            format!("after refused {op:?} the reader sees {} samples, model has {}", bits.len(), want.len()),
                        );
                    }
                }
                return;
            }
            Ok(Err((kind, msg))) => {
                let is_tag = kind.starts_with("tags");
                if is_tag == (focus == Focus::Tags) || kind == "capacity-accounting" && focus == Focus::Samples {
                    ctx.fail(format!("{pid}/{kind}/{label}"), msg);
                }
                return;
            }
            Err(pi) => {
                // A panic in a legal operation.  With a non-dividing element size under
                // debug assertions this is the late refusal; it still counts (the property
                // wants an error at set-up, not a panic in the middle of a history).
                if focus == Focus::Samples || divides {
                    ctx.fail(
                        format!("{pid}/panic-in-legal-op/{label}/{}", crate::engine::loc_file(&pi.loc)),
                        format!("op#{opi} {op:?} panicked at {}: {}", pi.loc, pi.msg),
                    );
                }
                return;
            }
        }
    }
    if partial_consume_left_tags && focus == Focus::Tags {
        ctx.nontrivial();
    }
}

fn check_window<T: Elem>(
    m: &Model,
    r: &BufferReader<T>,
    tags: &[Tag],
    opi: usize,
    focus: Focus,
    ctx: &mut Ctx,
) -> Result<(), (String, String)> {
    let got: Vec<u128> = r.slice().iter().map(|x| x.bits()).collect();
    if got.len() != m.used() {
        return Err((
            "read-window-len".into(),
            format!("op#{opi}: read window has {} samples, model has {}", got.len(), m.used()),
        ));
    }
    for (i, (g, w)) in got.iter().zip(m.q.iter()).enumerate() {
        if *g != w.0 {
            return Err((
                "read-mismatch".into(),
                format!(
                    "op#{opi}: sample {i} of the read window (rpos {} cap {}) is {g:#x}, committed value was {:#x}",
                    m.rpos(),
                    m.cap,
                    w.0
                ),
            ));
        }
    }
    // expected tags: by position, then commit order
    let mut want: Vec<(usize, &str, &TagValue)> = Vec::new();
    for (i, (_, ts)) in m.q.iter().enumerate() {
        for (k, v) in ts {
            want.push((i, k.as_str(), v));
        }
    }
    let gotv: Vec<(usize, &str, &TagValue)> = tags.iter().map(|t| (t.pos(), t.key(), t.val())).collect();
    if !want.is_empty() {
        let to_wrap = m.cap - m.rpos();
        let before = want.iter().any(|t| t.0 < to_wrap);
        let after = want.iter().any(|t| t.0 >= to_wrap);
        if before && after {
            ctx.class("tags-on-both-sides-of-wrap");
            if focus == Focus::Tags {
                ctx.nontrivial();
            }
        }
    }
    if gotv != want {
        let describe = |v: &[(usize, &str, &TagValue)]| {
            v.iter().take(12).map(|(p, k, v)| format!("{p}:{k}={v:?}")).collect::<Vec<_>>().join(" ")
        };
        return Err((
            "tags-mismatch".into(),
            format!(
                "op#{opi}: read window (rpos {} used {} cap {}) shows {} tags [{}], expected {} [{}]",
                m.rpos(),
                m.used(),
                m.cap,
                gotv.len(),
                describe(&gotv),
                want.len(),
                describe(&want)
            ),
        ));
    }
    Ok(())
}
