//! E2: drip-feed driver.  The driver plays the upstream and downstream neighbour of one
//! block: it owns the far end of every stream of the block and feeds / frees arbitrary
//! amounts between `work()` calls, recording for every call the verdict, the stream the
//! verdict names, per-port consumed/produced counts and handle counts.
use proptest::prelude::*;
use rustradio::Complex;
use rustradio::block::{Block, BlockRet};
use rustradio::stream::{
    NCReadStream, NCWriteStream, ReadStream, Tag, TagValue, WriteStream, new_nocopy_stream, new_stream,
};
use serde::{Deserialize, Serialize};

use crate::engine::{PanicInfo, catch};
use crate::ring::Sz;

// ---------------------------------------------------------------------------------------
// Sample types carried by ports.

pub trait Samp: Copy + Send + Sync + std::fmt::Debug + 'static {
    fn bits(&self) -> u64;
}
impl Samp for u8 {
    fn bits(&self) -> u64 {
        *self as u64
    }
}
impl Samp for u32 {
    fn bits(&self) -> u64 {
        *self as u64
    }
}
impl Samp for f32 {
    fn bits(&self) -> u64 {
        self.to_bits() as u64
    }
}
impl Samp for Complex {
    fn bits(&self) -> u64 {
        ((self.re.to_bits() as u64) << 32) | self.im.to_bits() as u64
    }
}

/// A user-defined sample type whose serialised size (3 bytes, 24-bit PCM) does not divide the
/// I/O buffer sizes the file and socket sources use; 4 bytes in memory.
#[derive(Clone, Copy, Debug, Default, PartialEq)]
pub struct Pcm24(pub i32);
impl rustradio::Sample for Pcm24 {
    type Type = Pcm24;
    fn size() -> usize {
        3
    }
    fn parse(data: &[u8]) -> rustradio::Result<Pcm24> {
        if data.len() != 3 {
            return Err(rustradio::Error::msg("Pcm24 needs 3 bytes"));
        }
        let v = (data[0] as i32) | ((data[1] as i32) << 8) | ((data[2] as i8 as i32) << 16);
        Ok(Pcm24(v))
    }
    fn serialize(&self) -> Vec<u8> {
        vec![self.0 as u8, (self.0 >> 8) as u8, (self.0 >> 16) as u8]
    }
}
impl Samp for Pcm24 {
    fn bits(&self) -> u64 {
        self.0 as u32 as u64
    }
}

/// A user-defined sample type whose serialised bytes are not its memory image: 16 bits,
/// big-endian on the wire (same size in memory and serialised).
#[derive(Clone, Copy, Debug, Default, PartialEq)]
pub struct Be16(pub u16);
impl rustradio::Sample for Be16 {
    type Type = Be16;
    fn size() -> usize {
        2
    }
    fn parse(data: &[u8]) -> rustradio::Result<Be16> {
        if data.len() != 2 {
            return Err(rustradio::Error::msg("Be16 needs 2 bytes"));
        }
        Ok(Be16(u16::from_be_bytes([data[0], data[1]])))
    }
    fn serialize(&self) -> Vec<u8> {
        self.0.to_be_bytes().to_vec()
    }
}
impl Samp for Be16 {
    fn bits(&self) -> u64 {
        self.0 as u64
    }
}

#[derive(Clone, Debug, PartialEq)]
pub enum InputData {
    U8(Vec<u8>),
    U32(Vec<u32>),
    F32(Vec<f32>),
    C32(Vec<Complex>),
    PU8(Vec<Vec<u8>>),
    PF32(Vec<Vec<f32>>),
}
impl InputData {
    pub fn len(&self) -> usize {
        match self {
            InputData::U8(v) => v.len(),
            InputData::U32(v) => v.len(),
            InputData::F32(v) => v.len(),
            InputData::C32(v) => v.len(),
            InputData::PU8(v) => v.len(),
            InputData::PF32(v) => v.len(),
        }
    }
}

/// A tag attached to an input sample (absolute index).
pub type ITag = (usize, String, TagValue);

#[derive(Clone, Debug, PartialEq, Eq)]
pub enum PortData {
    Samples(Vec<u64>),
    Packets(Vec<Vec<u64>>),
}
impl PortData {
    pub fn len(&self) -> usize {
        match self {
            PortData::Samples(v) => v.len(),
            PortData::Packets(v) => v.len(),
        }
    }
}

#[derive(Clone, Debug, PartialEq)]
pub struct Collected {
    pub data: PortData,
    /// (absolute sample index, key, value) in delivery order
    pub tags: Vec<(usize, String, TagValue)>,
}

// ---------------------------------------------------------------------------------------
// Ports.

pub trait InPort {
    /// Feed up to `k` more units (samples/packets); returns how many were fed.
    fn feed(&mut self, k: usize) -> usize;
    fn pending(&self) -> usize;
    fn free(&self) -> usize;
    fn buffered(&self) -> usize;
    fn capacity(&self) -> usize;
    fn close(&mut self);
    fn is_closed(&self) -> bool;
    fn id(&self) -> usize;
    fn handles(&self) -> usize;
    fn fed(&self) -> usize;
    fn is_packet(&self) -> bool;
}
pub trait OutPort {
    /// Take up to `j` units from the block's output; returns how many were taken.
    fn drain(&mut self, j: usize) -> usize;
    fn available(&self) -> usize;
    fn capacity(&self) -> usize;
    fn close(&mut self);
    fn is_closed(&self) -> bool;
    fn id(&self) -> usize;
    fn handles(&self) -> usize;
    fn collected(&self) -> Collected;
    fn taken(&self) -> usize;
    fn is_packet(&self) -> bool;
}

pub struct SIn<T: Samp> {
    w: Option<WriteStream<T>>,
    data: Vec<T>,
    tags: Vec<ITag>,
    pos: usize,
    tagpos: usize,
    cap: usize,
    id: usize,
}
impl<T: Samp> SIn<T> {
    /// Creates the stream with the current thread's stream-size override.
    pub fn new(data: Vec<T>, mut tags: Vec<ITag>) -> (Self, ReadStream<T>) {
        use rustradio::stream::StreamWait;
        let (w, r) = new_stream::<T>();
        let cap = r.total_size();
        let id = w.verif_id();
        tags.sort_by_key(|t| t.0);
        (
            Self {
                w: Some(w),
                data,
                tags,
                pos: 0,
                tagpos: 0,
                cap,
                id,
            },
            r,
        )
    }
}
impl<T: Samp> InPort for SIn<T> {
    fn feed(&mut self, k: usize) -> usize {
        let Some(w) = &self.w else { return 0 };
        let mut wb = w.write_buf().expect("harness write_buf");
        let n = k.min(self.data.len() - self.pos).min(wb.len());
        if n == 0 {
            return 0;
        }
        wb.slice()[..n].copy_from_slice(&self.data[self.pos..self.pos + n]);
        let mut tv = Vec::new();
        while self.tagpos < self.tags.len() && self.tags[self.tagpos].0 < self.pos + n {
            let t = &self.tags[self.tagpos];
            if t.0 >= self.pos {
                tv.push(Tag::new(t.0 - self.pos, t.1.clone(), t.2.clone()));
            }
            self.tagpos += 1;
        }
        wb.produce(n, &tv);
        self.pos += n;
        n
    }
    fn pending(&self) -> usize {
        self.data.len() - self.pos
    }
    fn free(&self) -> usize {
        self.w.as_ref().map(|w| w.free()).unwrap_or(0)
    }
    fn buffered(&self) -> usize {
        self.w.as_ref().map(|w| self.cap - w.free()).unwrap_or(0)
    }
    fn capacity(&self) -> usize {
        self.cap
    }
    fn close(&mut self) {
        self.w = None;
    }
    fn is_closed(&self) -> bool {
        self.w.is_none()
    }
    fn id(&self) -> usize {
        self.id
    }
    fn handles(&self) -> usize {
        self.w.as_ref().map(|w| w.verif_refcount()).unwrap_or(0)
    }
    fn fed(&self) -> usize {
        self.pos
    }
    fn is_packet(&self) -> bool {
        false
    }
}

pub struct SOut<T: Samp> {
    r: Option<ReadStream<T>>,
    got: Vec<u64>,
    tags: Vec<(usize, String, TagValue)>,
    cap: usize,
    id: usize,
}
impl<T: Samp> SOut<T> {
    pub fn new(r: ReadStream<T>) -> Self {
        use rustradio::stream::StreamWait;
        let cap = r.total_size();
        let id = r.verif_id();
        Self {
            r: Some(r),
            got: Vec::new(),
            tags: Vec::new(),
            cap,
            id,
        }
    }
}
impl<T: Samp> OutPort for SOut<T> {
    fn drain(&mut self, j: usize) -> usize {
        let Some(r) = &self.r else { return 0 };
        let (rb, tags) = r.read_buf().expect("harness read_buf");
        let n = j.min(rb.len());
        if n == 0 {
            return 0;
        }
        let base = self.got.len();
        self.got.extend(rb.slice()[..n].iter().map(|x| x.bits()));
        for t in tags {
            if t.pos() < n {
                self.tags.push((base + t.pos(), t.key().to_string(), t.val().clone()));
            }
        }
        rb.consume(n);
        n
    }
    fn available(&self) -> usize {
        match &self.r {
            Some(r) => r.verif_available(),
            None => 0,
        }
    }
    fn capacity(&self) -> usize {
        self.cap
    }
    fn close(&mut self) {
        self.r = None;
    }
    fn is_closed(&self) -> bool {
        self.r.is_none()
    }
    fn id(&self) -> usize {
        self.id
    }
    fn handles(&self) -> usize {
        self.r.as_ref().map(|r| r.verif_refcount()).unwrap_or(0)
    }
    fn collected(&self) -> Collected {
        Collected {
            data: PortData::Samples(self.got.clone()),
            tags: self.tags.clone(),
        }
    }
    fn taken(&self) -> usize {
        self.got.len()
    }
    fn is_packet(&self) -> bool {
        false
    }
}

pub struct PIn<T: Samp> {
    w: Option<NCWriteStream<Vec<T>>>,
    data: Vec<Vec<T>>,
    pos: usize,
    id: usize,
}
impl<T: Samp> PIn<T> {
    pub fn new(data: Vec<Vec<T>>) -> (Self, NCReadStream<Vec<T>>) {
        use rustradio::stream::StreamWait;
        let (w, r) = new_nocopy_stream::<Vec<T>>();
        let id = w.verif_id();
        (
            Self {
                w: Some(w),
                data,
                pos: 0,
                id,
            },
            r,
        )
    }
}
impl<T: Samp> InPort for PIn<T> {
    fn feed(&mut self, k: usize) -> usize {
        let Some(w) = &self.w else { return 0 };
        let n = k.min(self.data.len() - self.pos);
        for i in 0..n {
            w.push(self.data[self.pos + i].clone(), &[]);
        }
        self.pos += n;
        n
    }
    fn pending(&self) -> usize {
        self.data.len() - self.pos
    }
    fn free(&self) -> usize {
        usize::MAX / 2
    }
    fn buffered(&self) -> usize {
        self.w.as_ref().map(|w| w.verif_len()).unwrap_or(0)
    }
    fn capacity(&self) -> usize {
        usize::MAX / 2
    }
    fn close(&mut self) {
        self.w = None;
    }
    fn is_closed(&self) -> bool {
        self.w.is_none()
    }
    fn id(&self) -> usize {
        self.id
    }
    fn handles(&self) -> usize {
        self.w.as_ref().map(|w| w.verif_refcount()).unwrap_or(0)
    }
    fn fed(&self) -> usize {
        self.pos
    }
    fn is_packet(&self) -> bool {
        true
    }
}

pub struct POut<T: Samp> {
    r: Option<NCReadStream<Vec<T>>>,
    got: Vec<Vec<u64>>,
    id: usize,
}
impl<T: Samp> POut<T> {
    pub fn new(r: NCReadStream<Vec<T>>) -> Self {
        use rustradio::stream::StreamWait;
        let id = r.verif_id();
        Self {
            r: Some(r),
            got: Vec::new(),
            id,
        }
    }
}
impl<T: Samp> OutPort for POut<T> {
    fn drain(&mut self, j: usize) -> usize {
        let Some(r) = &self.r else { return 0 };
        let mut n = 0;
        while n < j {
            match r.pop() {
                Some((v, _)) => {
                    self.got.push(v.iter().map(|x| x.bits()).collect());
                    n += 1;
                }
                None => break,
            }
        }
        n
    }
    fn available(&self) -> usize {
        self.r.as_ref().map(|r| r.verif_len()).unwrap_or(0)
    }
    fn capacity(&self) -> usize {
        usize::MAX / 2
    }
    fn close(&mut self) {
        self.r = None;
    }
    fn is_closed(&self) -> bool {
        self.r.is_none()
    }
    fn id(&self) -> usize {
        self.id
    }
    fn handles(&self) -> usize {
        self.r.as_ref().map(|r| r.verif_refcount()).unwrap_or(0)
    }
    fn collected(&self) -> Collected {
        Collected {
            data: PortData::Packets(self.got.clone()),
            tags: Vec::new(),
        }
    }
    fn taken(&self) -> usize {
        self.got.len()
    }
    fn is_packet(&self) -> bool {
        true
    }
}

/// Per-case scratch directory (tmpfs), removed on drop.
pub struct Scratch(pub std::path::PathBuf);
impl Scratch {
    pub fn new() -> Self {
        use std::sync::atomic::{AtomicU64, Ordering};
        static N: AtomicU64 = AtomicU64::new(0);
        let base = if std::path::Path::new("/dev/shm").is_dir() { "/dev/shm" } else { "/tmp" };
        let p = std::path::PathBuf::from(format!("{base}/rrverif-{}-{}", std::process::id(), N.fetch_add(1, Ordering::Relaxed)));
        std::fs::create_dir_all(&p).expect("scratch dir");
        Scratch(p)
    }
    pub fn path(&self, name: &str) -> std::path::PathBuf {
        self.0.join(name)
    }
}
impl Drop for Scratch {
    fn drop(&mut self) {
        let _ = std::fs::remove_dir_all(&self.0);
    }
}

pub struct Built {
    /// scratch files the block reads/writes
    pub scratch: Option<Scratch>,
    /// contents of a sink block's store, if it has one
    pub sink_probe: Option<Box<dyn Fn() -> Vec<u64>>>,
    pub name: String,
    pub block: Box<dyn Block>,
    pub ins: Vec<Box<dyn InPort>>,
    pub outs: Vec<Box<dyn OutPort>>,
}

// ---------------------------------------------------------------------------------------
// Schedules.

#[derive(Clone, Debug, Serialize, Deserialize, PartialEq)]
pub enum Step {
    Feed { port: u8, k: Sz },
    Free { port: u8, j: Sz },
    Work,
    Burst(u8),
}

pub fn step_strategy() -> impl Strategy<Value = Step> {
    prop_oneof![
        5 => (0u8..3, crate::ring::sz_strategy()).prop_map(|(port, k)| Step::Feed { port, k }),
        4 => (0u8..3, crate::ring::sz_strategy()).prop_map(|(port, j)| Step::Free { port, j }),
        8 => Just(Step::Work),
        2 => (1u8..6).prop_map(Step::Burst),
    ]
}
pub fn schedule_strategy(max: usize) -> impl Strategy<Value = Vec<Step>> {
    prop::collection::vec(step_strategy(), 0..max)
}

#[derive(Clone, Debug, PartialEq)]
pub enum Verdict {
    Again,
    Pending,
    WaitStream,
    WaitFunc,
    Eof,
    Error(String),
    Panic,
}

thread_local! {
    /// Bumped by harness-defined blocks once per per-sample function invocation (C19).
    pub static PROBE: std::cell::Cell<u64> = const { std::cell::Cell::new(0) };
}
pub fn probe_bump() {
    PROBE.with(|p| p.set(p.get() + 1));
}

#[derive(Clone, Debug)]
pub struct CallObs {
    /// per-sample function invocations of a harness-defined block during this call
    pub probe_delta: u64,
    pub verdict: Verdict,
    /// (stream id, need, closed) when the verdict names a stream
    pub named: Option<(usize, usize, bool)>,
    pub consumed: Vec<usize>,
    pub produced: Vec<usize>,
    pub in_buffered_before: Vec<usize>,
    pub out_free_before: Vec<usize>,
    pub in_closed: Vec<bool>,
    pub out_closed: Vec<bool>,
    pub handles_in: Vec<usize>,
    pub handles_out: Vec<usize>,
    pub panic: Option<PanicInfo>,
    /// true while the generated schedule (not the drain phase) is executing
    pub in_schedule: bool,
}
impl CallObs {
    pub fn activity(&self) -> bool {
        self.consumed.iter().any(|&x| x > 0) || self.produced.iter().any(|&x| x > 0)
    }
}

#[derive(Default, Clone, Debug)]
pub struct RunFlags {
    pub call_with_output_full: bool,
    pub call_with_output_short: bool,
    pub call_with_input_short: bool,
    pub call_both_short: bool,
    pub wrapped: bool,
    pub peer_gone_call: bool,
}

pub struct RunLog {
    pub calls: Vec<CallObs>,
    pub outs: Vec<Collected>,
    pub fed: Vec<usize>,
    pub in_lens: Vec<usize>,
    pub eof_at: Option<usize>,
    pub panic: Option<PanicInfo>,
    pub error: Option<String>,
    pub flags: RunFlags,
    /// calls made after all inputs were closed
    pub calls_after_close: usize,
    /// block.eof() as sampled after the last call
    pub block_eof: bool,
    pub step_budget_hit: bool,
    pub all_fed: bool,
    pub ncalls: usize,
    /// per-call verdict findings (C09): (kind, message)
    pub findings: Vec<(String, String)>,
    pub probes: usize,
    pub outputs_closed: bool,
    /// call number of the first verdict on which a runner would retire the block: a wait on
    /// an ended input that holds less than what is asked for
    pub retirable_since: Option<usize>,
    /// ... because eof() answered true after a wait verdict
    pub retired_by_eof: bool,
}

pub struct DriveOpts {
    /// close the inputs once everything was fed and the block went quiet
    pub close_inputs: bool,
    pub max_calls: usize,
    /// probe wait verdicts (C09 c/d): satisfy exactly the named stream and call again
    pub probe: bool,
    /// how much to feed / free per round of the drain phase (at least 1 unit each)
    pub drain_feed: Sz,
    pub drain_free: Sz,
    /// drain phase: only one output port is drained per round, in rotation (blocks with
    /// several outputs see one output full while another has room)
    pub lopsided: bool,
    /// keep every CallObs in the log (C09); otherwise only the last few
    pub keep_calls: bool,
    /// evaluate the per-call verdict oracles of C09 (handles, misdirected wait, spin)
    pub verdict_checks: bool,
    /// drop the downstream ends after this many schedule steps
    pub close_outputs_at: Option<usize>,
    /// close the inputs as soon as everything was fed (the block may still be clogged)
    pub close_early: bool,
}
impl Default for DriveOpts {
    fn default() -> Self {
        Self {
            close_inputs: true,
            close_early: false,
            max_calls: 60_000,
            probe: false,
            drain_feed: Sz::All,
            drain_free: Sz::All,
            lopsided: false,
            keep_calls: false,
            verdict_checks: false,
            close_outputs_at: None,
        }
    }
}

fn call(built: &mut Built, in_schedule: bool) -> CallObs {
    let in_before: Vec<usize> = built.ins.iter().map(|p| p.buffered()).collect();
    let out_before: Vec<usize> = built.outs.iter().map(|p| p.available()).collect();
    let out_free: Vec<usize> = built
        .outs
        .iter()
        .zip(&out_before)
        .map(|(p, a)| p.capacity().saturating_sub(*a))
        .collect();
    let in_closed: Vec<bool> = built.ins.iter().map(|p| p.is_closed()).collect();
    let out_closed: Vec<bool> = built.outs.iter().map(|p| p.is_closed()).collect();
    let block = &mut built.block;
    let probe_before = PROBE.with(|p| p.get());
    let r = catch(|| match block.work() {
        Ok(BlockRet::Again) => (Verdict::Again, None),
        Ok(BlockRet::Pending) => (Verdict::Pending, None),
        Ok(BlockRet::WaitForFunc(_)) => (Verdict::WaitFunc, None),
        Ok(BlockRet::EOF) => (Verdict::Eof, None),
        Ok(BlockRet::WaitForStream(s, need)) => {
            (Verdict::WaitStream, Some((s.verif_id(), need, s.closed())))
        }
        Err(e) => (Verdict::Error(format!("{e}")), None),
    });
    let (verdict, named, panic) = match r {
        Ok((v, n)) => (v, n, None),
        Err(pi) => (Verdict::Panic, None, Some(pi)),
    };
    let consumed: Vec<usize> = built
        .ins
        .iter()
        .zip(&in_before)
        .map(|(p, b)| if p.is_closed() { 0 } else { b.saturating_sub(p.buffered()) })
        .collect();
    let produced: Vec<usize> = built
        .outs
        .iter()
        .zip(&out_before)
        .map(|(p, b)| if p.is_closed() { 0 } else { p.available().saturating_sub(*b) })
        .collect();
    CallObs {
        probe_delta: PROBE.with(|p| p.get()) - probe_before,
        verdict,
        named,
        consumed,
        produced,
        in_buffered_before: in_before,
        out_free_before: out_free,
        in_closed,
        out_closed,
        handles_in: built.ins.iter().map(|p| p.handles()).collect(),
        handles_out: built.outs.iter().map(|p| p.handles()).collect(),
        panic,
        in_schedule,
    }
}

fn add_finding(log: &mut RunLog, kind: &str, msg: String) {
    if !log.findings.iter().any(|f| f.0 == kind) {
        log.findings.push((kind.to_string(), msg));
    }
}

/// C09 oracles evaluated right after a call; may issue probe calls.  Returns false when
/// the block must not be called any more.
fn verdict_checks(built: &mut Built, log: &mut RunLog, opts: &DriveOpts, in_schedule: bool) -> bool {
    let obs = log.calls.last().unwrap().clone();
    // (b) no window may survive work(): every open stream has exactly its two ends
    for (i, h) in obs.handles_in.iter().enumerate() {
        if !built.ins[i].is_closed() && *h != 2 {
            add_finding(log, "leaked-window", format!("input {i} has {h} handles after work() returned"));
        }
    }
    for (i, h) in obs.handles_out.iter().enumerate() {
        if !built.outs[i].is_closed() && *h != 2 {
            add_finding(log, "leaked-window", format!("output {i} has {h} handles after work() returned"));
        }
    }
    if obs.activity() {
        // (c') a call that moved data and then reports a wait on a stream that already
        // satisfies the request: the following call must make progress, otherwise the wait
        // named the wrong stream (a runner that retires a block waiting on an ended stream
        // would strand its data)
        if obs.verdict == Verdict::WaitStream && !(built.ins.iter().any(|p| p.is_closed()) || built.outs.iter().any(|p| p.is_closed())) {
            if let Some((id, need, _)) = obs.named {
                let inp = built.ins.iter().position(|p| p.id() == id);
                let outp = built.outs.iter().position(|p| p.id() == id);
                let sat = match (inp, outp) {
                    (Some(i), _) => Some((built.ins[i].buffered() >= need, format!("input {i} (buffered {}, need {need})", built.ins[i].buffered()))),
                    (_, Some(o)) => {
                        let free = built.outs[o].capacity().saturating_sub(built.outs[o].available());
                        Some((free >= need, format!("output {o} (free {free}, need {need})")))
                    }
                    _ => None,
                };
                if let Some((true, desc)) = sat {
                    let o2 = call(built, in_schedule);
                    log.ncalls += 1;
                    let stop = matches!(o2.verdict, Verdict::Eof | Verdict::Panic | Verdict::Error(_));
                    if o2.verdict == Verdict::Eof {
                        log.eof_at = Some(log.ncalls);
                    }
                    if let Some(p) = &o2.panic {
                        log.panic = Some(p.clone());
                    }
                    if let Verdict::Error(e) = &o2.verdict {
                        log.error = Some(e.clone());
                    }
                    let idle = !o2.activity() && !stop;
                    log.calls.push(o2);
                    if idle {
                        add_finding(
                            log,
                            "misdirected-wait",
                            format!("work() moved data and then reported a wait on {desc}, which already satisfies the request; the next call made no progress"),
                        );
                    }
                    return !stop;
                }
            }
        }
        return true;
    }
    // With an end dropped by the harness, consumption/production on that stream is not
    // observable any more: "no activity" cannot be established.
    if built.ins.iter().any(|p| p.is_closed()) || built.outs.iter().any(|p| p.is_closed()) {
        return true;
    }
    match obs.verdict {
        Verdict::Again => {
            // (d) idle spin: nothing changes between the calls
            let mut idle = 1;
            for _ in 0..5 {
                let o2 = call(built, in_schedule);
                log.ncalls += 1;
                let stop = matches!(o2.verdict, Verdict::Eof | Verdict::Panic | Verdict::Error(_));
                let again_idle = o2.verdict == Verdict::Again && !o2.activity();
                if o2.verdict == Verdict::Eof {
                    log.eof_at = Some(log.ncalls);
                }
                if let Some(p) = &o2.panic {
                    log.panic = Some(p.clone());
                }
                if let Verdict::Error(e) = &o2.verdict {
                    log.error = Some(e.clone());
                }
                log.calls.push(o2);
                if stop {
                    return false;
                }
                if again_idle {
                    idle += 1;
                } else {
                    break;
                }
            }
            if idle >= 6 {
                add_finding(
                    log,
                    "idle-spin",
                    format!(
                        "6 consecutive calls answered Again without consuming, producing or any change in the stream situation (inputs buffered {:?}, outputs free {:?})",
                        obs.in_buffered_before, obs.out_free_before
                    ),
                );
            }
            true
        }
        Verdict::WaitStream => {
            let Some((id, need, _closed)) = obs.named else { return true };
            // which port?
            let inp = built.ins.iter().position(|p| p.id() == id);
            let outp = built.outs.iter().position(|p| p.id() == id);
            let (satisfied, desc, open) = match (inp, outp) {
                (Some(i), _) => {
                    let p = &built.ins[i];
                    (p.buffered() >= need, format!("input {i} (buffered {}, need {need})", p.buffered()), !p.is_closed())
                }
                (_, Some(o)) => {
                    let p = &built.outs[o];
                    let free = p.capacity().saturating_sub(p.available());
                    (free >= need, format!("output {o} (free {free}, need {need})"), !p.is_closed())
                }
                _ => {
                    // a stream the harness does not own (closed ends are not reachable either)
                    return true;
                }
            };
            if !open {
                return true;
            }
            if satisfied {
                add_finding(
                    log,
                    "misdirected-wait",
                    format!("work() did nothing and reported a wait on {desc}, which already satisfies the request"),
                );
                return true;
            }
            if !opts.probe {
                return true;
            }
            // provide exactly what was asked, on that stream alone, and call again
            let provided = match (inp, outp) {
                (Some(i), _) => {
                    let p = &mut built.ins[i];
                    let missing = need - p.buffered();
                    if need > p.capacity() || p.pending() < missing || p.free() < missing {
                        false
                    } else {
                        p.feed(missing) == missing
                    }
                }
                (_, Some(o)) => {
                    let p = &mut built.outs[o];
                    let free = p.capacity().saturating_sub(p.available());
                    let missing = need - free;
                    if need > p.capacity() || p.available() < missing {
                        false
                    } else {
                        p.drain(missing) == missing
                    }
                }
                _ => false,
            };
            if !provided {
                return true;
            }
            log.probes += 1;
            let o2 = call(built, in_schedule);
            log.ncalls += 1;
            let stop = matches!(o2.verdict, Verdict::Eof | Verdict::Panic | Verdict::Error(_));
            if o2.verdict == Verdict::Eof {
                log.eof_at = Some(log.ncalls);
            }
            if let Some(p) = &o2.panic {
                log.panic = Some(p.clone());
            }
            if let Verdict::Error(e) = &o2.verdict {
                log.error = Some(e.clone());
            }
            let bad = !o2.activity() && o2.verdict == Verdict::WaitStream && o2.named.map(|n| n.0 == id && n.1 <= need).unwrap_or(false);
            log.calls.push(o2);
            if bad {
                add_finding(
                    log,
                    "wait-not-honoured",
                    format!("after providing exactly what was asked on {desc}, the next call again did nothing and asked for the same"),
                );
            }
            !stop
        }
        _ => true,
    }
}

/// Executes a schedule, then drains to quiescence.
pub fn drive(built: &mut Built, schedule: &[Step], opts: &DriveOpts) -> RunLog {
    let mut log = RunLog {
        calls: Vec::new(),
        outs: Vec::new(),
        fed: Vec::new(),
        in_lens: built.ins.iter().map(|p| p.pending()).collect(),
        eof_at: None,
        panic: None,
        error: None,
        flags: RunFlags::default(),
        calls_after_close: 0,
        block_eof: false,
        step_budget_hit: false,
        all_fed: false,
        ncalls: 0,
        findings: Vec::new(),
        probes: 0,
        outputs_closed: false,
        retirable_since: None,
        retired_by_eof: false,
    };
    let keep_calls = opts.keep_calls;
    let nin = built.ins.len().max(1);
    let nout = built.outs.len().max(1);
    let mut done = false;

    let mut do_call = |built: &mut Built, log: &mut RunLog, in_schedule: bool| -> bool {
        // returns false when the block must not be called any more
        let obs = call(built, in_schedule);
        let out_full = obs.out_free_before.iter().zip(&obs.out_closed).any(|(f, c)| !c && *f == 0);
        let out_short = obs
            .out_free_before
            .iter()
            .zip(built.outs.iter())
            .any(|(f, p)| !p.is_packet() && *f < p.capacity() / 8);
        let in_short = obs
            .in_buffered_before
            .iter()
            .zip(built.ins.iter())
            .any(|(b, p)| !p.is_packet() && *b < 16.min(p.capacity()));
        log.flags.call_with_output_full |= out_full;
        log.flags.call_with_output_short |= out_short;
        log.flags.call_with_input_short |= in_short;
        log.flags.call_both_short |= in_short && out_short;
        log.flags.peer_gone_call |= obs.in_closed.iter().any(|c| *c) || obs.out_closed.iter().any(|c| *c);
        // a runner retires a block that waits on an ended input holding less than it asks for:
        // from then on the block must not be able to produce anything any more
        if let Some(since) = log.retirable_since {
            if obs.produced.iter().any(|p| *p > 0) && !log.findings.iter().any(|f| f.0 == "premature-retirement") {
                log.findings.push((
                    "premature-retirement".to_string(),
                    format!(
                        "call #{since} {} (a runner retires the block on that), yet call #{} produced {:?} more output units",
                        if log.retired_by_eof { "reported a wait and the block's eof() answered true" } else { "reported a wait on an ended input that held less than it asked for" },
                        log.ncalls, obs.produced
                    ),
                ));
            }
        } else if obs.verdict == Verdict::WaitStream {
            if let Some((id, need, _)) = obs.named {
                if let Some(i) = built.ins.iter().position(|p| p.id() == id) {
                    if built.ins[i].is_closed() && built.ins[i].buffered() < need {
                        log.retirable_since = Some(log.ncalls);
                    }
                }
            }
        }
        // ... and both runners ask the block's eof() after every wait verdict and retire it on
        // "true" (only looked at while no output reader is gone: production into a stream
        // without a reader cannot be observed)
        if log.retirable_since.is_none()
            && matches!(obs.verdict, Verdict::WaitStream | Verdict::WaitFunc)
            && !obs.out_closed.iter().any(|c| *c)
            && !built.outs.iter().any(|p| p.is_closed())
        {
            let block = &mut built.block;
            if catch(|| block.eof()).unwrap_or(false) {
                log.retirable_since = Some(log.ncalls);
                log.retired_by_eof = true;
            }
        }
        let stop = match &obs.verdict {
            Verdict::Eof => {
                log.eof_at = Some(log.ncalls);
                true
            }
            Verdict::Panic => {
                log.panic = obs.panic.clone();
                true
            }
            Verdict::Error(e) => {
                log.error = Some(e.clone());
                true
            }
            _ => false,
        };
        log.ncalls += 1;
        if !keep_calls && log.calls.len() >= 4 {
            log.calls.remove(0);
        }
        log.calls.push(obs);
        !stop
    };

    for (si, st) in schedule.iter().enumerate() {
        if done {
            break;
        }
        if opts.close_outputs_at == Some(si) && !log.outputs_closed {
            for p in built.outs.iter_mut() {
                p.drain(usize::MAX);
                p.close();
            }
            log.outputs_closed = true;
        }
        match st {
            Step::Feed { port, k } => {
                if built.ins.is_empty() {
                    continue;
                }
                let p = &mut built.ins[*port as usize % nin];
                let avail = p.pending().min(p.free());
                let n = k.resolve(avail, avail);
                let before_fed = p.fed();
                p.feed(n);
                if !p.is_packet() && p.capacity() > 0 && (before_fed / p.capacity()) != (p.fed() / p.capacity()) {
                    log.flags.wrapped = true;
                }
            }
            Step::Free { port, j } => {
                if built.outs.is_empty() {
                    continue;
                }
                let p = &mut built.outs[*port as usize % nout];
                let a = p.available();
                let n = j.resolve(a, a);
                let before = p.taken();
                p.drain(n);
                if !p.is_packet() && p.capacity() > 0 && (before / p.capacity()) != (p.taken() / p.capacity()) {
                    log.flags.wrapped = true;
                }
            }
            Step::Work => {
                if !do_call(built, &mut log, true) {
                    done = true;
                } else if opts.verdict_checks && !verdict_checks(built, &mut log, opts, true) {
                    done = true;
                }
            }
            Step::Burst(n) => {
                for _ in 0..*n {
                    if !do_call(built, &mut log, true) {
                        done = true;
                        break;
                    }
                    if opts.verdict_checks && !verdict_checks(built, &mut log, opts, true) {
                        done = true;
                        break;
                    }
                    if !log.calls.last().unwrap().activity() {
                        break;
                    }
                }
            }
        }
        if log.ncalls >= opts.max_calls {
            log.step_budget_hit = true;
            done = true;
        }
    }

    // Drain phase: feed as much as fits, free everything, call, until nothing moves.
    let mut quiet = 0;
    let mut closed = false;
    let mut drain_round = 0usize;
    while !done {
        let mut moved = false;
        for p in built.ins.iter_mut() {
            let before = p.fed();
            let avail = p.pending().min(p.free());
            let k = opts.drain_feed.resolve(avail, avail).max(1);
            if p.feed(k) > 0 {
                moved = true;
                if !p.is_packet() && (before / p.capacity()) != (p.fed() / p.capacity()) {
                    log.flags.wrapped = true;
                }
            }
        }
        drain_round += 1;
        let nouts = built.outs.len();
        for (pi, p) in built.outs.iter_mut().enumerate() {
            if opts.lopsided && nouts >= 2 && drain_round % nouts != pi {
                continue;
            }
            let before = p.taken();
            let avail = p.available();
            let j = opts.drain_free.resolve(avail, avail).max(1);
            if p.drain(j) > 0 {
                moved = true;
                if !p.is_packet() && (before / p.capacity()) != (p.taken() / p.capacity()) {
                    log.flags.wrapped = true;
                }
            }
        }
        if opts.close_early && opts.close_inputs && !closed && !built.ins.is_empty() && built.ins.iter().all(|p| p.pending() == 0) {
            for p in built.ins.iter_mut() {
                p.close();
            }
            closed = true;
        }
        if closed {
            log.calls_after_close += 1;
        }
        if !do_call(built, &mut log, false) {
            break;
        }
        let before_probe = log.ncalls;
        if opts.verdict_checks && !verdict_checks(built, &mut log, opts, false) {
            break;
        }
        if log.ncalls != before_probe && log.calls.last().unwrap().activity() {
            moved = true;
        }
        if log.calls.iter().rev().take(1 + log.ncalls - before_probe).any(|c| c.activity()) {
            moved = true;
        }
        if std::env::var_os("VERIF_DEBUG_DRIVE").is_some() {
            let c = log.calls.last().unwrap();
            eprintln!("drain: ncalls={} closed={closed} moved={moved} quiet={quiet} verdict={:?} consumed={:?} produced={:?}", log.ncalls, c.verdict, c.consumed, c.produced);
        }
        // with the input writers gone, consumption is not observable any more: a block that
        // answers Again is taken at its word (bounded below)
        let claims_more = closed && opts.close_early && log.calls.last().map(|c| c.verdict == Verdict::Again).unwrap_or(false);
        if moved || claims_more {
            quiet = 0;
        } else {
            quiet += 1;
        }
        if quiet >= 3 {
            let all_fed = built.ins.iter().all(|p| p.pending() == 0);
            if opts.close_inputs && !closed && all_fed && !built.ins.is_empty() {
                for p in built.ins.iter_mut() {
                    p.close();
                }
                closed = true;
                quiet = 0;
            } else {
                break;
            }
        }
        if closed && !opts.close_early && log.calls_after_close > 40 {
            break;
        }
        if log.ncalls >= opts.max_calls {
            log.step_budget_hit = true;
            break;
        }
    }
    // final drain of whatever is left
    for p in built.outs.iter_mut() {
        p.drain(usize::MAX);
    }
    log.all_fed = built.ins.iter().all(|p| p.pending() == 0);
    log.fed = built.ins.iter().map(|p| p.fed()).collect();
    log.outs = built.outs.iter().map(|p| p.collected()).collect();
    if log.panic.is_none() {
        let block = &mut built.block;
        log.block_eof = catch(|| block.eof()).unwrap_or(false);
    }
    log
}

/// One-shot twin: default (4 MB) streams, largest possible pieces, output always free.
pub fn drive_oneshot(built: &mut Built) -> RunLog {
    drive(built, &[], &DriveOpts::default())
}

impl Samp for i32 {
    fn bits(&self) -> u64 {
        *self as u32 as u64
    }
}

/// Every f32 half of a sample that is a NaN is replaced by the canonical quiet NaN: NaN
/// payloads and signs are not part of any oracle (the compiler may commute the operands of
/// a floating-point operation, e.g. between a vectorised loop body and its scalar tail).
pub fn canon_nan(v: &[u64]) -> Vec<u64> {
    v.iter()
        .map(|x| {
            let lo = *x as u32;
            let hi = (*x >> 32) as u32;
            let c = |b: u32| if f32::from_bits(b).is_nan() { 0x7fc0_0000u32 } else { b };
            ((c(hi) as u64) << 32) | c(lo) as u64
        })
        .collect()
}
pub fn canon_port(p: &PortData) -> PortData {
    match p {
        PortData::Samples(v) => PortData::Samples(canon_nan(v)),
        PortData::Packets(v) => PortData::Packets(v.iter().map(|x| canon_nan(x)).collect()),
    }
}
