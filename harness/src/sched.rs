//! E4: schedule explorer.  One case = one execution of a closure on the shuttle runtime
//! (coroutines on this OS thread) under a scheduler that is driven by a generated
//! decision stream; the library's locks / timed waits / spawns / stream-end drops reach the
//! scheduler through the `verif` hook.  After the decision stream is used up the
//! scheduler continues fairly (round robin), so every execution ends or runs into the
//! step bound under a fair schedule.
use std::cell::RefCell;
use std::rc::Rc;

use rustradio::verif::{Point, SchedHook, ThreadBody, set_sched_hook};
use shuttle::scheduler::{Schedule, Scheduler, Task, TaskId};

use crate::engine::{PanicInfo, catch};

#[derive(Default)]
pub struct SchedState {
    pub decisions: Vec<u8>,
    pub pos: usize,
    pub steps: u64,
    pub fair_steps: u64,
    pub switches: u64,
    pub preemptions: u64,
    spin_hint: bool,
    same_task_run: u32,
    pub points: [u64; 8],
    /// longest sleep the code under test asked for (nanoseconds)
    pub max_sleep_ns: u64,
    /// notification-faithful timed waits (see `explore_faithful`)
    pub faithful: bool,
    /// tasks asleep inside a timed wait (faithful mode)
    parked: Vec<usize>,
    /// at the last scheduling decision every runnable task was asleep in a timed wait
    all_parked: bool,
    pub lost_wakeups: u64,
    pub timeouts_fired: u64,
}
impl SchedState {
    fn next_byte(&mut self) -> Option<u8> {
        let b = self.decisions.get(self.pos).copied();
        if b.is_some() {
            self.pos += 1;
        }
        b
    }
}

struct DSched {
    st: Rc<RefCell<SchedState>>,
    started: bool,
}

impl Scheduler for DSched {
    fn new_execution(&mut self) -> Option<Schedule> {
        if self.started {
            None
        } else {
            self.started = true;
            Some(Schedule::new(0))
        }
    }
    fn next_task(&mut self, runnable: &[&Task], current: Option<TaskId>, _is_yielding: bool) -> Option<TaskId> {
        let mut st = self.st.borrow_mut();
        st.steps += 1;
        if st.faithful {
            let ap = runnable.iter().all(|t| {
                let id: usize = t.id().into();
                st.parked.contains(&id)
            });
            st.all_parked = ap;
        }
        let spin = std::mem::replace(&mut st.spin_hint, false);
        let cur_runnable = current.and_then(|c| runnable.iter().position(|t| t.id() == c));
        let pick = match st.next_byte() {
            Some(b) => {
                if b < 192 && !spin {
                    match cur_runnable {
                        Some(i) => i,
                        None => (b as usize * runnable.len()) >> 8,
                    }
                } else {
                    ((b as usize & 63) * runnable.len()) >> 6
                }
            }
            None => {
                // fair continuation: keep running, but rotate when the task spins/waits or
                // has been running for a while
                st.fair_steps += 1;
                st.same_task_run += 1;
                match cur_runnable {
                    Some(i) if !spin && st.same_task_run < 32 => i,
                    Some(i) => {
                        st.same_task_run = 0;
                        (i + 1) % runnable.len()
                    }
                    None => {
                        st.same_task_run = 0;
                        // the current task is gone/blocked: take the next id in cyclic order
                        match current {
                            Some(c) => {
                                let cid: usize = c.into();
                                runnable
                                    .iter()
                                    .position(|t| {
                                        let tid: usize = t.id().into();
                                        tid > cid
                                    })
                                    .unwrap_or(0)
                            }
                            None => 0,
                        }
                    }
                }
            }
        };
        let chosen = runnable[pick].id();
        if Some(chosen) != current {
            st.switches += 1;
            if cur_runnable.is_some() && !spin {
                st.preemptions += 1;
            }
        }
        Some(chosen)
    }
    fn next_u64(&mut self) -> u64 {
        self.st.borrow_mut().next_byte().unwrap_or(0) as u64
    }
}

struct Hook {
    st: Rc<RefCell<SchedState>>,
}
impl SchedHook for Hook {
    fn yield_point(&self, p: Point) {
        // A stream end dropped while a task unwinds (the execution is being aborted: step
        // bound, deadlock, a panic of the code under test) must not call back into the
        // runtime: a second panic inside a destructor would abort the whole process.
        if std::thread::panicking() {
            return;
        }
        {
            let Ok(mut st) = self.st.try_borrow_mut() else { return };
            st.spin_hint = matches!(p, Point::Contended | Point::WaitYield | Point::Sleep | Point::Join);
            st.points[p as usize] += 1;
        }
        shuttle::thread::yield_now();
    }
    fn sleep_requested(&self, dur: std::time::Duration) {
        if let Ok(mut st) = self.st.try_borrow_mut() {
            st.max_sleep_ns = st.max_sleep_ns.max(dur.as_nanos().min(u64::MAX as u128) as u64);
        }
    }
    fn faithful_waits(&self) -> bool {
        self.st.try_borrow().map(|s| s.faithful).unwrap_or(false)
    }
    fn wait_parked(&self, parked: bool) {
        let Some(me) = shuttle::current::get_current_task() else { return };
        let id: usize = me.into();
        if let Ok(mut st) = self.st.try_borrow_mut() {
            st.parked.retain(|t| *t != id);
            if parked {
                st.parked.push(id);
            }
        }
    }
    fn wait_timeout_fires(&self) -> bool {
        // a timeout is the last resort: it fires only when nobody else can make progress
        match self.st.try_borrow_mut() {
            Ok(mut st) => {
                if st.all_parked {
                    st.timeouts_fired += 1;
                }
                st.all_parked
            }
            Err(_) => true,
        }
    }
    fn lost_wakeup(&self) {
        if let Ok(mut st) = self.st.try_borrow_mut() {
            st.lost_wakeups += 1;
        }
    }
    fn timeout_budget(&self) -> u32 {
        // 0..=3 yields before a timed wait reports a timeout; 1 once the stream is exhausted
        match self.st.borrow_mut().next_byte() {
            Some(b) => (b & 3) as u32,
            None => 1,
        }
    }
    fn spawn(&self, name: Option<String>, f: ThreadBody) -> Box<dyn FnOnce()> {
        let mut b = shuttle::thread::Builder::new().stack_size(1 << 20);
        if let Some(n) = name {
            b = b.name(n);
        }
        let jh = b.spawn(f).expect("shuttle spawn");
        Box::new(move || {
            let _ = jh.join();
        })
    }
}

pub struct Explored {
    pub steps: u64,
    pub fair_steps: u64,
    pub switches: u64,
    pub preemptions: u64,
    pub decisions_used: usize,
    pub points: [u64; 8],
    /// longest sleep requested by the code under test, in nanoseconds
    pub max_sleep_ns: u64,
    /// faithful mode: waits that slept through the state change that satisfied them, with no
    /// notification between going to sleep and the timeout
    pub lost_wakeups: u64,
    pub timeouts_fired: u64,
    /// panic out of the execution (task panic, deadlock, step bound)
    pub panic: Option<PanicInfo>,
    pub step_bound_hit: bool,
    pub deadlock: bool,
}

/// A harness-side scheduling point for tasks written in the harness.
pub fn hpoint() {
    rustradio::verif::yield_point(Point::Lock);
}

/// Spawn a harness task on the runtime.
pub fn spawn<F: FnOnce() + Send + 'static>(name: &str, f: F) -> shuttle::thread::JoinHandle<()> {
    shuttle::thread::Builder::new()
        .name(name.to_string())
        .stack_size(1 << 20)
        .spawn(f)
        .expect("shuttle spawn")
}

/// Runs `f` once under the decision stream.
pub fn explore<F>(decisions: &[u8], max_steps: usize, f: F) -> Explored
where
    F: Fn() + Send + Sync + 'static,
{
    explore_mode(decisions, max_steps, false, f)
}

/// As `explore`, with notification-faithful timed waits: a waiter sleeps until the condition
/// variable is notified; its timeout fires only when every runnable task is asleep in such a
/// wait (last resort).  A wait that ends by timeout and then finds its condition satisfied,
/// with no notification since it went to sleep, slept through the state change that it was
/// waiting for (`Explored::lost_wakeups`): with real threads it would have slept for the
/// whole timeout.
pub fn explore_faithful<F>(decisions: &[u8], max_steps: usize, f: F) -> Explored
where
    F: Fn() + Send + Sync + 'static,
{
    explore_mode(decisions, max_steps, true, f)
}

fn explore_mode<F>(decisions: &[u8], max_steps: usize, faithful: bool, f: F) -> Explored
where
    F: Fn() + Send + Sync + 'static,
{
    let st = Rc::new(RefCell::new(SchedState {
        decisions: decisions.to_vec(),
        faithful,
        ..SchedState::default()
    }));
    let hook: Rc<dyn SchedHook> = Rc::new(Hook { st: st.clone() });
    set_sched_hook(Some(hook));
    let mut cfg = shuttle::Config::new();
    cfg.stack_size = 1 << 20;
    cfg.failure_persistence = shuttle::FailurePersistence::None;
    cfg.max_steps = shuttle::MaxSteps::FailAfter(max_steps);
    cfg.silence_warnings = true;
    let runner = shuttle::Runner::new(DSched { st: st.clone(), started: false }, cfg);
    let r = catch(move || {
        runner.run(f);
    });
    set_sched_hook(None);
    let s = st.borrow();
    let (panic, step_bound_hit, deadlock) = match r {
        Ok(()) => (None, false, false),
        Err(pi) => {
            let sb = pi.msg.contains("exceeded max_steps") || pi.msg.contains("max_steps");
            let dl = pi.msg.contains("deadlock");
            (Some(pi), sb, dl)
        }
    };
    Explored {
        steps: s.steps,
        fair_steps: s.fair_steps,
        switches: s.switches,
        preemptions: s.preemptions,
        decisions_used: s.pos,
        points: s.points,
        max_sleep_ns: s.max_sleep_ns,
        lost_wakeups: s.lost_wakeups,
        timeouts_fired: s.timeouts_fired,
        panic,
        step_bound_hit,
        deadlock,
    }
}

pub fn decisions_strategy(max: usize) -> impl proptest::strategy::Strategy<Value = Vec<u8>> {
    use proptest::prelude::*;
    // mostly "keep running" bytes with pre-emptions sprinkled in
    prop::collection::vec(prop_oneof![3 => 0u8..192, 1 => 192u8..=255], 0..max)
}

/// One execution of `f` under shuttle's stock PCT scheduler (priority-based, `depth` priority
/// change points): good at ordering bugs that need few but specific pre-emptions.  Timed waits
/// time out after one yield.
pub fn explore_pct<F>(seed: u64, depth: usize, max_steps: usize, f: F) -> Explored
where
    F: Fn() + Send + Sync + 'static,
{
    let st = Rc::new(RefCell::new(SchedState::default()));
    let hook: Rc<dyn SchedHook> = Rc::new(Hook { st: st.clone() });
    set_sched_hook(Some(hook));
    let mut cfg = shuttle::Config::new();
    cfg.stack_size = 1 << 20;
    cfg.failure_persistence = shuttle::FailurePersistence::None;
    cfg.max_steps = shuttle::MaxSteps::FailAfter(max_steps);
    cfg.silence_warnings = true;
    let sched = shuttle::scheduler::PctScheduler::new_from_seed(seed, depth.max(1), 1);
    let runner = shuttle::Runner::new(sched, cfg);
    let r = catch(move || {
        runner.run(f);
    });
    set_sched_hook(None);
    let s = st.borrow();
    let (panic, step_bound_hit, deadlock) = match r {
        Ok(()) => (None, false, false),
        Err(pi) => {
            let sb = pi.msg.contains("max_steps");
            let dl = pi.msg.contains("deadlock");
            (Some(pi), sb, dl)
        }
    };
    Explored {
        steps: s.points.iter().sum(),
        fair_steps: 0,
        switches: 0,
        preemptions: 0,
        decisions_used: 0,
        points: s.points,
        max_sleep_ns: s.max_sleep_ns,
        lost_wakeups: s.lost_wakeups,
        timeouts_fired: s.timeouts_fired,
        panic,
        step_bound_hit,
        deadlock,
    }
}
