//! E5: graph generator + sequential reference executor.  A recipe describes a graph
//! (chain | chain . tee -> two balanced branches -> merge . chain | two sources -> merge,
//! with rate changers, a packet stage and 1-2 sinks); the same recipe builds the graph twice:
//! twin A for the reference executor (4 MB streams, topological round robin to
//! quiescence: the Kahn least fixed point), twin B for the runner under test.
use proptest::prelude::*;
use rustradio::block::{Block, BlockRet};
use rustradio::blocks::*;
use rustradio::stream::ReadStream;
use rustradio::vector_sink::Hook;
use serde::{Deserialize, Serialize};

use crate::catalog::TapSpec;
use crate::gens::*;
use crate::refmodel as rm;

#[derive(Clone, Debug, Serialize, Deserialize, PartialEq)]
pub enum Stage {
    XorConst(u8),
    Nrzi,
    Descramble,
    Delay(u16),
    Skip(u16),
    Resamp(u8, u8),
    /// u8 -> f32 (Map)
    ToFloat,
    /// f32 -> u8
    Slicer,
    AddConst(i16),
    MulConst(i16),
    Fir(TapSpec, u8),
    Iir(u8),
    /// bits -> HDLC deframer -> packets -> VecToStream -> bytes
    Packets,
    /// f32 -> f32 overlap-add FFT filter (block with internal streams)
    FftFloat(TapSpec),
    /// harness-defined block that moves data in whole chunks of k and asks for k at a time
    Chunk(u16),
}

#[derive(Clone, Debug, Serialize, Deserialize, PartialEq)]
pub enum Simple {
    XorConst(u8),
    Nrzi,
    Delay(u8),
    AddConst(i16),
    MulConst(i16),
}

#[derive(Clone, Debug, Serialize, Deserialize, PartialEq)]
pub struct Recipe {
    pub src: Gen,
    /// second source merged with the first right away (Xor)
    pub src2: Option<Gen>,
    pub pre: Vec<Stage>,
    /// tee -> (a, b) -> merge
    pub diamond: Option<(Vec<Simple>, Vec<Simple>)>,
    pub post: Vec<Stage>,
    /// second sink behind a tee at the end: 0 none, 1 NullSink, 2 VectorSink
    pub extra_sink: u8,
    /// keys that order the blocks for `add()` (sorted ascending, ties by index)
    pub order: Vec<u16>,
    pub pages: u8,
    /// if non-empty, the first source hands its data over in pieces of these sizes (one piece
    /// per work() call, on its own clock) instead of as much as fits
    #[serde(default)]
    pub src_pieces: Vec<u16>,
    /// the source delivers `src_pieces` as *packets* (one per call) into a VecToStream block
    /// instead of writing the pieces to a sample stream
    #[serde(default)]
    pub pkt: bool,
}

pub fn stage_strategy() -> impl Strategy<Value = Stage> {
    prop_oneof![
        (0u8..2).prop_map(Stage::XorConst),
        Just(Stage::Nrzi),
        Just(Stage::Descramble),
        prop_oneof![0u16..4, 0u16..3000].prop_map(Stage::Delay),
        prop_oneof![0u16..4, 0u16..3000].prop_map(Stage::Skip),
        (1u8..6, 1u8..6).prop_map(|(i, d)| Stage::Resamp(i, d)),
        Just(Stage::ToFloat),
        Just(Stage::Slicer),
        (-40i16..40).prop_map(Stage::AddConst),
        (-40i16..40).prop_map(Stage::MulConst),
        (crate::catalog::tapspec_strategy(24), 1u8..4).prop_map(|(t, d)| Stage::Fir(t, d)),
        (0u8..=100).prop_map(Stage::Iir),
        Just(Stage::Packets),
        crate::catalog::tapspec_strategy(24).prop_map(Stage::FftFloat),
        prop_oneof![2u16..9, 2u16..400].prop_map(Stage::Chunk),
    ]
}
pub fn simple_strategy() -> impl Strategy<Value = Simple> {
    prop_oneof![
        (0u8..2).prop_map(Simple::XorConst),
        Just(Simple::Nrzi),
        (0u8..64).prop_map(Simple::Delay),
        (-40i16..40).prop_map(Simple::AddConst),
        (-40i16..40).prop_map(Simple::MulConst),
    ]
}

pub fn recipe_strategy(max_len: u32) -> BoxedStrategy<Recipe> {
    (
        gen_strategy(max_len),
        prop::option::weighted(0.25, gen_strategy(max_len)),
        prop::collection::vec(stage_strategy(), 0..4),
        prop::option::weighted(0.35, (prop::collection::vec(simple_strategy(), 0..3), prop::collection::vec(simple_strategy(), 0..3))),
        prop::collection::vec(stage_strategy(), 0..3),
        0u8..3,
        prop::collection::vec(any::<u16>(), 16),
        1u8..5,
    )
        .prop_map(|(src, src2, pre, diamond, post, extra_sink, order, pages)| Recipe {
            src,
            src2,
            pre,
            diamond,
            post,
            extra_sink,
            order,
            pages,
            src_pieces: vec![],
            pkt: false,
        })
        .boxed()
}

/// Tiny graphs about the end of a stream: a source that delivers 1-4 small pieces on its own
/// clock, one or two stages (biased to rate changers and blocks that ask for more than one
/// sample), one sink.  Executions are ~50-200 scheduling steps long, so a generated decision
/// stream covers a useful fraction of their interleavings.
pub fn tiny_recipe_strategy() -> BoxedStrategy<Recipe> {
    let stage = prop_oneof![
        4 => (1u8..4, 1u8..6).prop_map(|(i, d)| Stage::Resamp(i, d)),
        3 => (2u16..6).prop_map(Stage::Chunk),
        1 => (0u16..4).prop_map(Stage::Delay),
        1 => (0u16..4).prop_map(Stage::Skip),
        1 => Just(Stage::Nrzi),
        1 => Just(Stage::ToFloat),
        1 => (crate::catalog::tapspec_strategy(3), 1u8..3).prop_map(|(t, d)| Stage::Fir(t, d)),
    ];
    // one case in six: a packet source (1-5 packets of up to 2000 samples, so that a few of
    // them fill the one-page stream behind VecToStream) instead of a sample source
    let pieces = prop_oneof![
        5 => prop::collection::vec(1u16..6, 1..5).prop_map(|p| (p, false)),
        1 => prop::collection::vec(prop_oneof![1u16..6, 1u16..2000, 1000u16..2000], 1..6).prop_map(|p| (p, true)),
    ];
    (
        pieces,
        any::<u32>(),
        prop::collection::vec(stage, 0..3),
        prop::collection::vec(any::<u16>(), 16),
    )
        .prop_map(|((src_pieces, pkt), seed, mut pre, order)| {
            if !pkt && pre.is_empty() {
                pre.push(Stage::Nrzi);
            }
            // one sample-source case in four: a second source of the same total length, all
            // delivered at once, merged with the pieces by a two-input sync block (Xor): one
            // input runs dry while the other has a backlog
            let total: u32 = src_pieces.iter().map(|x| *x as u32).sum();
            let src2 = if !pkt && seed % 4 == 0 { Some(Gen { pat: 0, len: total, seed: seed ^ 0x77 }) } else { None };
            Recipe {
                src: Gen { pat: 0, len: total, seed },
                src2,
                pre,
                diamond: None,
                post: vec![],
                extra_sink: 0,
                order,
                pages: 1,
                src_pieces,
                pkt,
            }
        })
        .boxed()
}

pub enum SinkHandle {
    U8(Hook<u8>),
    F32(Hook<f32>),
    /// NullSink: nothing to compare
    Null,
}
impl SinkHandle {
    pub fn len(&self) -> usize {
        match self {
            SinkHandle::U8(h) => h.data().samples().len(),
            SinkHandle::F32(h) => h.data().samples().len(),
            SinkHandle::Null => 0,
        }
    }
    pub fn contents(&self) -> Vec<u64> {
        match self {
            SinkHandle::U8(h) => h.data().samples().iter().map(|x| *x as u64).collect(),
            SinkHandle::F32(h) => h.data().samples().iter().map(|x| x.to_bits() as u64).collect(),
            SinkHandle::Null => Vec::new(),
        }
    }
}

enum Cur {
    B(ReadStream<u8>),
    F(ReadStream<f32>),
}

pub struct BuiltGraph {
    /// topological order
    pub blocks: Vec<Box<dyn Block + Send>>,
    pub names: Vec<String>,
    pub sinks: Vec<SinkHandle>,
    pub has_wait_after_progress: bool,
    /// external-feed mode: the write end of the first stream, held by the application
    pub extern_writer: Option<rustradio::stream::WriteStream<u8>>,
}

/// Input bits for the first source: structured (HDLC frames + noise) when a packet stage
/// is present, so that packets actually come out.
pub fn source_bits(r: &Recipe, g: &Gen) -> Vec<u8> {
    let wants_packets = r.pre.iter().chain(r.post.iter()).any(|s| matches!(s, Stage::Packets));
    if wants_packets {
        let mut x = XRng::new(g.seed as u64 ^ 0x9a);
        let mut bits = Vec::new();
        while bits.len() < g.len as usize {
            let l = 1 + x.below(20) as usize;
            let payload: Vec<u8> = (0..l).map(|_| x.next() as u8).collect();
            bits.extend(rm::hdlc_frame_bits(&payload, 1 + x.below(2) as usize, 1));
            for _ in 0..x.below(5) {
                bits.push((x.next() & 1) as u8);
            }
        }
        bits.truncate(g.len as usize);
        bits
    } else {
        gen_u8(g, BDom::Bits)
    }
}

/// Build the graph; `size`: stream size in bytes for every stream (None = 4 MB default).
pub fn build(r: &Recipe, size: Option<usize>) -> BuiltGraph {
    build_opts(r, size, false)
}

/// `endless`: the first source repeats its data forever (for cancellation plans).
pub fn build_opts(r: &Recipe, size: Option<usize>, endless: bool) -> BuiltGraph {
    build_src(r, size, endless as u8)
}

/// `mode` 0: the recipe's source; 1: an endless source; 2: no source block at all - the first
/// stream is fed by the application, which wrote a little and keeps the write end (alive and
/// idle) outside the graph.
pub fn build_src(r: &Recipe, size: Option<usize>, mode: u8) -> BuiltGraph {
    let endless = mode == 1;
    let external = mode == 2;
    let mut extern_writer = None;
    rustradio::verif::set_stream_size(size);
    let mut blocks: Vec<Box<dyn Block + Send>> = Vec::new();
    let mut names: Vec<String> = Vec::new();
    let mut sinks = Vec::new();
    let mut wap = false;
    macro_rules! add {
        ($b:expr, $n:expr) => {{
            blocks.push(Box::new($b));
            names.push($n.to_string());
        }};
    }
    let ext_out = if external {
        let (w, rd) = rustradio::stream::new_stream::<u8>();
        let d = source_bits(r, &r.src);
        let m = d.len().min(w.free() / 2);
        if m > 0 {
            let mut wb = w.write_buf().expect("write_buf");
            wb.slice()[..m].copy_from_slice(&d[..m]);
            wb.produce(m, &[]);
        }
        extern_writer = Some(w);
        Some(rd)
    } else {
        None
    };
    let (s, out): (Box<dyn Block + Send>, ReadStream<u8>) = if !r.src_pieces.is_empty() && !endless {
        let mut d = source_bits(r, &r.src);
        let total: usize = r.src_pieces.iter().map(|x| *x as usize).sum();
        d.resize(total, 1);
        if r.pkt {
            let mut pk = Vec::new();
            let mut at = 0usize;
            for l in &r.src_pieces {
                pk.push(d[at..at + *l as usize].to_vec());
                at += *l as usize;
            }
            let (b, po) = PacketSource::new(pk, 0);
            blocks.push(Box::new(b));
            names.push("Source".to_string());
            let (v, o) = VecToStream::new(po);
            (Box::new(v), o)
        } else {
            let (b, o) = PieceSource::new(d, r.src_pieces.iter().map(|x| *x as usize).collect(), 0);
            (Box::new(b), o)
        }
    } else if endless {
        let mut d = source_bits(r, &r.src);
        if d.is_empty() {
            d = vec![0, 1, 1, 0, 1];
        }
        let (b, o) = VectorSourceBuilder::new(d).repeat(rustradio::Repeat::infinite()).build();
        (Box::new(b), o)
    } else {
        let (b, o) = VectorSource::new(source_bits(r, &r.src));
        (Box::new(b), o)
    };
    let out = match ext_out {
        Some(rd) => {
            // the recipe's own source is not part of the graph
            drop(s);
            drop(out);
            if r.pkt && !r.src_pieces.is_empty() && !endless {
                blocks.pop();
                names.pop();
            }
            rd
        }
        None => {
            blocks.push(s);
            names.push(if r.pkt && !r.src_pieces.is_empty() && !endless { "VecToStream".to_string() } else { "Source".to_string() });
            out
        }
    };
    let mut cur = Cur::B(out);
    if let Some(g2) = &r.src2 {
        let (s2, out2) = VectorSource::new(gen_u8(g2, BDom::Bits));
        add!(s2, "VectorSource#2");
        if let Cur::B(a) = cur {
            let (x, o) = Xor::new(a, out2);
            add!(x, "Xor");
            cur = Cur::B(o);
        }
    }
    let apply = |st: &Stage, cur: Cur, blocks: &mut Vec<Box<dyn Block + Send>>, names: &mut Vec<String>, wap: &mut bool| -> Cur {
        macro_rules! add2 {
            ($b:expr, $n:expr) => {{
                blocks.push(Box::new($b));
                names.push($n.to_string());
            }};
        }
        match (st, cur) {
            (Stage::XorConst(v), Cur::B(s)) => {
                let (b, o) = XorConst::new(s, *v & 1);
                add2!(b, "XorConst");
                Cur::B(o)
            }
            (Stage::Nrzi, Cur::B(s)) => {
                let (b, o) = NrziDecode::new(s);
                add2!(b, "NrziDecode");
                Cur::B(o)
            }
            (Stage::Descramble, Cur::B(s)) => {
                let (b, o) = Descrambler::new(s, 0x21, 0, 16);
                add2!(b, "Descrambler");
                Cur::B(o)
            }
            (Stage::Delay(d), Cur::B(s)) => {
                let (b, o) = Delay::new(s, *d as usize);
                add2!(b, "Delay");
                Cur::B(o)
            }
            (Stage::Delay(d), Cur::F(s)) => {
                let (b, o) = Delay::new(s, *d as usize);
                add2!(b, "Delay");
                Cur::F(o)
            }
            (Stage::Skip(d), Cur::B(s)) => {
                let (b, o) = Skip::new(s, *d as usize);
                add2!(b, "Skip");
                Cur::B(o)
            }
            (Stage::Skip(d), Cur::F(s)) => {
                let (b, o) = Skip::new(s, *d as usize);
                add2!(b, "Skip");
                Cur::F(o)
            }
            (Stage::Resamp(i, d), Cur::B(s)) => {
                let (b, o) = RationalResampler::new(s, *i as usize, *d as usize).unwrap();
                add2!(b, "RationalResampler");
                *wap = true;
                Cur::B(o)
            }
            (Stage::Resamp(i, d), Cur::F(s)) => {
                let (b, o) = RationalResampler::new(s, *i as usize, *d as usize).unwrap();
                add2!(b, "RationalResampler");
                *wap = true;
                Cur::F(o)
            }
            (Stage::ToFloat, Cur::B(s)) => {
                let (b, o) = MapBuilder::new(s, |x: u8| x as f32 * 2.0 - 1.0).name("ToFloat").build();
                add2!(b, "Map");
                Cur::F(o)
            }
            (Stage::Slicer, Cur::F(s)) => {
                let (b, o) = BinarySlicer::new(s);
                add2!(b, "BinarySlicer");
                Cur::B(o)
            }
            (Stage::AddConst(v), Cur::F(s)) => {
                let (b, o) = AddConst::new(s, *v as f32 / 8.0);
                add2!(b, "AddConst");
                Cur::F(o)
            }
            (Stage::MulConst(v), Cur::F(s)) => {
                let (b, o) = MultiplyConst::new(s, *v as f32 / 8.0);
                add2!(b, "MultiplyConst");
                Cur::F(o)
            }
            (Stage::Fir(t, d), Cur::F(s)) => {
                let (b, o) = FirFilterBuilder::new(&t.taps()).deci(*d as usize).build(s);
                add2!(b, "FirFilter");
                Cur::F(o)
            }
            (Stage::Iir(a), Cur::F(s)) => {
                let (b, o) = SinglePoleIirFilter::new(s, *a as f32 / 100.0).unwrap();
                add2!(b, "SinglePoleIirFilter");
                Cur::F(o)
            }
            (Stage::FftFloat(t), Cur::F(s)) => {
                let (b, o) = FftFilterFloat::new(s, &t.taps());
                add2!(b, "FftFilterFloat");
                Cur::F(o)
            }
            (Stage::Chunk(k), Cur::B(s)) => {
                let (b, o) = Chunker::new(s, (*k).max(1) as usize);
                add2!(b, "Chunker");
                Cur::B(o)
            }
            (Stage::Chunk(k), Cur::F(s)) => {
                let (b, o) = Chunker::new(s, (*k).max(1) as usize);
                add2!(b, "Chunker");
                Cur::F(o)
            }
            (Stage::Packets, Cur::B(s)) => {
                let (mut b, o) = HdlcDeframer::new(s, 1, 100);
                b.set_checksum(true);
                add2!(b, "HdlcDeframer");
                let (v, o2) = VecToStream::new(o);
                add2!(v, "VecToStream");
                // payload bytes -> bits again (downstream bit blocks require {0,1})
                let (m, o3) = MapBuilder::new(o2, |x: u8| x & 1).name("LowBit").build();
                add2!(m, "Map");
                Cur::B(o3)
            }
            // stage does not apply to the current type: skipped
            (_, c) => c,
        }
    };
    for st in &r.pre {
        cur = apply(st, cur, &mut blocks, &mut names, &mut wap);
    }
    if let Some((a, b)) = &r.diamond {
        let simple = |st: &Simple| -> Stage {
            match st {
                Simple::XorConst(v) => Stage::XorConst(*v),
                Simple::Nrzi => Stage::Nrzi,
                Simple::Delay(d) => Stage::Delay(*d as u16),
                Simple::AddConst(v) => Stage::AddConst(*v),
                Simple::MulConst(v) => Stage::MulConst(*v),
            }
        };
        match cur {
            Cur::B(s) => {
                let (t, o1, o2) = Tee::new(s);
                add!(t, "Tee");
                let (mut c1, mut c2) = (Cur::B(o1), Cur::B(o2));
                for st in a {
                    c1 = apply(&simple(st), c1, &mut blocks, &mut names, &mut wap);
                }
                for st in b {
                    c2 = apply(&simple(st), c2, &mut blocks, &mut names, &mut wap);
                }
                match (c1, c2) {
                    (Cur::B(x), Cur::B(y)) => {
                        let (m, o) = Xor::new(x, y);
                        add!(m, "Xor");
                        cur = Cur::B(o);
                    }
                    _ => unreachable!("simple stages keep the type"),
                }
            }
            Cur::F(s) => {
                let (t, o1, o2) = Tee::new(s);
                add!(t, "Tee");
                let (mut c1, mut c2) = (Cur::F(o1), Cur::F(o2));
                for st in a {
                    c1 = apply(&simple(st), c1, &mut blocks, &mut names, &mut wap);
                }
                for st in b {
                    c2 = apply(&simple(st), c2, &mut blocks, &mut names, &mut wap);
                }
                match (c1, c2) {
                    (Cur::F(x), Cur::F(y)) => {
                        let (m, o) = Add::new(x, y);
                        add!(m, "Add");
                        cur = Cur::F(o);
                    }
                    _ => unreachable!("simple stages keep the type"),
                }
            }
        }
    }
    for st in &r.post {
        cur = apply(st, cur, &mut blocks, &mut names, &mut wap);
    }
    // sinks
    match cur {
        Cur::B(s) => {
            let s = if r.extra_sink % 3 != 0 {
                let (t, o1, o2) = Tee::new(s);
                add!(t, "Tee");
                if r.extra_sink % 3 == 1 {
                    add!(NullSink::new(o2), "NullSink");
                    sinks.push(SinkHandle::Null);
                } else {
                    let v = VectorSink::new(o2, 10_000_000);
                    sinks.push(SinkHandle::U8(v.hook()));
                    add!(v, "VectorSink");
                }
                o1
            } else {
                s
            };
            let v = VectorSink::new(s, 10_000_000);
            sinks.push(SinkHandle::U8(v.hook()));
            add!(v, "VectorSink");
        }
        Cur::F(s) => {
            let s = if r.extra_sink % 3 != 0 {
                let (t, o1, o2) = Tee::new(s);
                add!(t, "Tee");
                if r.extra_sink % 3 == 1 {
                    add!(NullSink::new(o2), "NullSink");
                    sinks.push(SinkHandle::Null);
                } else {
                    let v = VectorSink::new(o2, 10_000_000);
                    sinks.push(SinkHandle::F32(v.hook()));
                    add!(v, "VectorSink");
                }
                o1
            } else {
                s
            };
            let v = VectorSink::new(s, 10_000_000);
            sinks.push(SinkHandle::F32(v.hook()));
            add!(v, "VectorSink");
        }
    }
    rustradio::verif::set_stream_size(None);
    BuiltGraph {
        extern_writer,
        blocks,
        names,
        sinks,
        // VectorSink / NullSink always report a wait from the call in which they consumed
        has_wait_after_progress: wap,
    }
}

/// Index order in which the blocks are added to a runner.
pub fn add_order(r: &Recipe, n: usize) -> Vec<usize> {
    let mut idx: Vec<usize> = (0..n).collect();
    idx.sort_by_key(|i| (r.order[*i % r.order.len()], *i));
    idx
}

/// Sequential reference execution: round robin in topological order, verdicts ignored
/// (except EOF / errors), until several consecutive passes neither grow a sink nor report
/// `Again`.  Nothing is dropped while data is pending, so nothing can be lost.
pub fn reference_run(g: &mut BuiltGraph) -> Result<Vec<Vec<u64>>, String> {
    let n = g.blocks.len();
    let mut eof = vec![false; n];
    let mut quiet = 0;
    let mut last: Vec<usize> = g.sinks.iter().map(|s| s.len()).collect();
    for _pass in 0..200_000 {
        let mut again = false;
        for (i, b) in g.blocks.iter_mut().enumerate() {
            if eof[i] {
                continue;
            }
            match b.work() {
                Ok(BlockRet::Again) => again = true,
                Ok(BlockRet::EOF) => {
                    eof[i] = true;
                    again = true;
                }
                Ok(_) => {}
                Err(e) => return Err(format!("{}: {e}", g.names[i])),
            }
        }
        let now: Vec<usize> = g.sinks.iter().map(|s| s.len()).collect();
        if again || now != last {
            quiet = 0;
        } else {
            quiet += 1;
        }
        last = now;
        if quiet >= 4 + n {
            return Ok(g.sinks.iter().map(|s| s.contents()).collect());
        }
    }
    Err("reference executor did not reach quiescence".to_string())
}

// ---------------------------------------------------------------------------------------
// Wrapper blocks: count work() calls relative to a cancellation, inject failures, record drops.

use std::sync::Arc;
use std::sync::atomic::{AtomicBool, AtomicU64, Ordering};

pub struct Shared {
    /// set by the harness right after cancel() returned
    pub cancelled: AtomicBool,
    /// per block: work() calls started after `cancelled` was set
    pub calls_after_cancel: Vec<AtomicU64>,
    pub calls: Vec<AtomicU64>,
    pub dropped: Vec<AtomicBool>,
    /// scheduling points the failing call passes before it returns its error (a slow
    /// failing call: other tasks, e.g. a canceller, can run in between)
    pub fail_yields: AtomicU64,
    /// the injected failure has been returned to the runner
    pub failed: AtomicBool,
    /// per block: its injected failure has been returned
    pub failed_blocks: Vec<AtomicBool>,
}
impl Shared {
    pub fn new(n: usize) -> Arc<Self> {
        Arc::new(Self {
            cancelled: AtomicBool::new(false),
            calls_after_cancel: (0..n).map(|_| AtomicU64::new(0)).collect(),
            calls: (0..n).map(|_| AtomicU64::new(0)).collect(),
            dropped: (0..n).map(|_| AtomicBool::new(false)).collect(),
            fail_yields: AtomicU64::new(0),
            failed: AtomicBool::new(false),
            failed_blocks: (0..n).map(|_| AtomicBool::new(false)).collect(),
        })
    }
}

pub struct Wrapped {
    inner: Box<dyn Block + Send>,
    idx: usize,
    shared: Arc<Shared>,
    /// fail on this call number (1-based), if any
    fail_on: Option<u64>,
    /// (first call, count): these calls answer Pending without touching the inner block
    pending: Option<(u64, u64)>,
    name: String,
}
impl rustradio::block::BlockName for Wrapped {
    fn block_name(&self) -> &str {
        &self.name
    }
}
impl rustradio::block::BlockEOF for Wrapped {
    fn eof(&mut self) -> bool {
        self.inner.eof()
    }
}
impl Block for Wrapped {
    fn work(&mut self) -> rustradio::Result<BlockRet> {
        let n = self.shared.calls[self.idx].fetch_add(1, Ordering::SeqCst) + 1;
        if self.shared.cancelled.load(Ordering::SeqCst) {
            self.shared.calls_after_cancel[self.idx].fetch_add(1, Ordering::SeqCst);
        }
        if self.fail_on == Some(n) {
            for _ in 0..self.shared.fail_yields.load(Ordering::SeqCst) {
                crate::sched::hpoint();
            }
            self.shared.failed.store(true, Ordering::SeqCst);
            self.shared.failed_blocks[self.idx].store(true, Ordering::SeqCst);
            return Err(rustradio::Error::msg(format!("injected#{}", self.idx)));
        }
        if let Some((first, count)) = self.pending {
            if n >= first && n < first + count {
                return Ok(BlockRet::Pending);
            }
        }
        self.inner.work()
    }
}
impl Drop for Wrapped {
    fn drop(&mut self) {
        self.shared.dropped[self.idx].store(true, Ordering::SeqCst);
    }
}

pub fn wrap(blocks: Vec<Box<dyn Block + Send>>, names: &[String], shared: &Arc<Shared>, fail: Option<(usize, u64)>) -> Vec<Box<dyn Block + Send>> {
    let fails: Vec<(usize, u64)> = fail.into_iter().collect();
    wrap_multi(blocks, names, shared, &fails)
}

/// Like `wrap`, with any number of failing blocks (block index, failing call number).
pub fn wrap_multi(blocks: Vec<Box<dyn Block + Send>>, names: &[String], shared: &Arc<Shared>, fails: &[(usize, u64)]) -> Vec<Box<dyn Block + Send>> {
    wrap_pending(blocks, names, shared, fails, None)
}

/// Like `wrap_multi`; block `pending.0` additionally answers `Pending` on its calls
/// `pending.1 .. pending.1 + pending.2` (1-based) - a block waiting for something outside
/// the graph.
pub fn wrap_pending(
    blocks: Vec<Box<dyn Block + Send>>,
    names: &[String],
    shared: &Arc<Shared>,
    fails: &[(usize, u64)],
    pending: Option<(usize, u64, u64)>,
) -> Vec<Box<dyn Block + Send>> {
    blocks
        .into_iter()
        .enumerate()
        .map(|(i, b)| {
            Box::new(Wrapped {
                inner: b,
                idx: i,
                shared: shared.clone(),
                fail_on: fails.iter().find(|(p, _)| *p == i).map(|(_, k)| *k),
                pending: pending.filter(|(p, _, _)| *p == i).map(|(_, a, c)| (a, c)),
                name: names[i].clone(),
            }) as Box<dyn Block + Send>
        })
        .collect()
}

/// A user-style block that processes whole chunks of `k` samples and waits for exactly `k`
/// (input or output room) at a time: exercises the runners with `need > 1` on both sides.
#[derive(rustradio::rustradio_macros::Block)]
#[rustradio(new)]
pub struct Chunker<T: Copy> {
    #[rustradio(in)]
    src: ReadStream<T>,
    #[rustradio(out)]
    dst: rustradio::stream::WriteStream<T>,
    k: usize,
}
impl<T: Copy> Block for Chunker<T> {
    fn work(&mut self) -> rustradio::Result<BlockRet> {
        let (i, _tags) = self.src.read_buf()?;
        if i.len() < self.k {
            return Ok(BlockRet::WaitForStream(&self.src, self.k));
        }
        let mut o = self.dst.write_buf()?;
        if o.len() < self.k {
            return Ok(BlockRet::WaitForStream(&self.dst, self.k));
        }
        let n = (i.len().min(o.len()) / self.k) * self.k;
        o.slice()[..n].copy_from_slice(&i.slice()[..n]);
        o.produce(n, &[]);
        i.consume(n);
        Ok(BlockRet::Again)
    }
}

/// A source that hands over its data in pieces of given sizes, one piece per work() call
/// (a capture device / network source delivers on its own clock, not when there is room).
#[derive(rustradio::rustradio_macros::Block)]
#[rustradio(new)]
pub struct PieceSource {
    #[rustradio(out)]
    dst: rustradio::stream::WriteStream<u8>,
    data: Vec<u8>,
    pieces: Vec<usize>,
    idx: usize,
}
/// Finite packet source: one packet per call, then EOF.
#[derive(rustradio::rustradio_macros::Block)]
#[rustradio(new)]
pub struct PacketSource {
    #[rustradio(out)]
    dst: rustradio::stream::NCWriteStream<Vec<u8>>,
    packets: Vec<Vec<u8>>,
    idx: usize,
}
impl Block for PacketSource {
    fn work(&mut self) -> rustradio::Result<BlockRet> {
        if self.idx >= self.packets.len() {
            return Ok(BlockRet::EOF);
        }
        self.dst.push(self.packets[self.idx].clone(), &[]);
        self.idx += 1;
        Ok(if self.idx == self.packets.len() { BlockRet::EOF } else { BlockRet::Again })
    }
}
impl Block for PieceSource {
    fn work(&mut self) -> rustradio::Result<BlockRet> {
        if self.idx >= self.pieces.len() {
            return Ok(BlockRet::EOF);
        }
        let n = self.pieces[self.idx];
        let start: usize = self.pieces[..self.idx].iter().sum();
        let mut o = self.dst.write_buf()?;
        if o.len() < n {
            return Ok(BlockRet::WaitForStream(&self.dst, n));
        }
        o.slice()[..n].copy_from_slice(&self.data[start..start + n]);
        o.produce(n, &[]);
        self.idx += 1;
        Ok(if self.idx == self.pieces.len() { BlockRet::EOF } else { BlockRet::Again })
    }
}
