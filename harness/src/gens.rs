//! Deterministic expansion of compact input descriptions.  A case stores (pattern,
//! length, seed); the data is a pure function of those, so cases stay small, replayable
//! and shrinkable (length and seed shrink towards 0).
use proptest::prelude::*;
use rustradio::Complex;
use serde::{Deserialize, Serialize};

#[derive(Clone, Copy, Debug, Serialize, Deserialize, PartialEq, Eq)]
pub struct Gen {
    pub pat: u8,
    pub len: u32,
    pub seed: u32,
}

pub fn gen_strategy(max_len: u32) -> impl Strategy<Value = Gen> {
    // lengths around multiples of the stream capacities (1024 f32 / 4096 u8 per page): the last
    // commit of a source is then 1-2 samples long, or a buffer is filled exactly
    let near = (1u32..=(max_len / 1024).clamp(1, 24), 0u32..5).prop_map(|(k, d)| (k * 1024 + d).saturating_sub(2));
    let len = prop_oneof![
        1 => 0u32..4,
        2 => 0u32..200,
        3 => 0u32..(max_len / 4).max(2),
        3 => 0u32..max_len.max(2),
        2 => near,
    ];
    (0u8..10, len, any::<u32>()).prop_map(|(pat, len, seed)| Gen { pat, len, seed })
}

pub struct XRng(pub u64);
impl XRng {
    pub fn new(seed: u64) -> Self {
        XRng(seed.wrapping_mul(0x9E3779B97F4A7C15) ^ 0xD1B54A32D192ED03)
    }
    pub fn next(&mut self) -> u64 {
        self.0 = self.0.wrapping_add(0x9E3779B97F4A7C15);
        let mut z = self.0;
        z = (z ^ (z >> 30)).wrapping_mul(0xBF58476D1CE4E5B9);
        z = (z ^ (z >> 27)).wrapping_mul(0x94D049BB133111EB);
        z ^ (z >> 31)
    }
    pub fn below(&mut self, n: u64) -> u64 {
        if n == 0 { 0 } else { self.next() % n }
    }
    /// uniform in [-1, 1)
    pub fn unit(&mut self) -> f32 {
        ((self.next() >> 40) as f32 / (1u64 << 23) as f32) - 1.0
    }
}

#[derive(Clone, Copy, Debug, PartialEq, Eq)]
pub enum FDom {
    /// finite, |x| <= ~1000
    Finite,
    /// [-1, 1]
    Unit,
    /// anything: NaN, infinities, subnormals, huge
    Any,
}

const F_SPECIALS: &[u32] = &[
    0x0000_0000, // +0
    0x8000_0000, // -0
    0x0000_0001, // smallest subnormal
    0x807f_ffff, // largest negative subnormal
    0x7f80_0000, // +inf
    0xff80_0000, // -inf
    0x7fc0_0000, // qNaN
    0xffc0_1234, // -qNaN with payload
    0x7f7f_ffff, // max
    0xff7f_ffff, // -max
    0x3f80_0000, // 1
    0xbf80_0000, // -1
];

/// Patterns 8 and 9 are *gated* signals (squelched audio, bursts): stretches of data
/// separated by stretches of exact zeroes, 1 to ~12 000 samples each.
pub fn gate_mask(len: usize, seed: u32) -> Vec<bool> {
    let mut r = XRng::new(seed as u64 ^ 0x6a7e);
    let mut on = r.below(2) == 0;
    let mut v = Vec::with_capacity(len);
    while v.len() < len {
        let l = match r.below(4) {
            0 => 1 + r.below(8),
            1 => 1 + r.below(300),
            2 => 1 + r.below(3000),
            _ => 1 + r.below(12000),
        } as usize;
        for _ in 0..l.min(len - v.len()) {
            v.push(on);
        }
        on = !on;
    }
    v
}

pub fn gen_f32(g: &Gen, dom: FDom) -> Vec<f32> {
    if g.pat >= 8 {
        // gated noise (8) / gated sinusoid (9, 10, ...)
        let inner = Gen { pat: if g.pat == 8 { 0 } else { 6 }, ..*g };
        let mut v = gen_f32(&inner, dom);
        for (x, on) in v.iter_mut().zip(gate_mask(g.len as usize, g.seed | 1)) {
            if !on {
                *x = 0.0;
            }
        }
        return v;
    }
    let mut r = XRng::new(g.seed as u64 ^ 0xf32);
    let n = g.len as usize;
    let scale = match dom {
        FDom::Unit => 1.0,
        _ => [1.0f32, 0.001, 1000.0, 3.5][(g.seed % 4) as usize],
    };
    let mut v = Vec::with_capacity(n);
    let period = 2 + (g.seed as usize % 37);
    let c = r.unit() * scale;
    for i in 0..n {
        let x = match g.pat % 8 {
            0 | 5 => r.unit() * scale,
            1 => 0.0,
            2 => c,
            3 => {
                if (i / period) % 2 == 0 { scale } else { -scale }
            }
            4 => (((i % 201) as f32 / 100.0) - 1.0) * scale,
            6 => {
                // sinusoid + a little noise: looks like a demodulated signal
                let w = std::f32::consts::TAU / (period as f32 + 3.3);
                ((i as f32 * w).sin() * 0.8 + r.unit() * 0.05) * scale
            }
            _ => {
                // random with specials sprinkled in (only if the domain allows)
                if dom == FDom::Any && r.below(4) == 0 {
                    f32::from_bits(F_SPECIALS[r.below(F_SPECIALS.len() as u64) as usize])
                } else if dom == FDom::Any && r.below(8) == 0 {
                    f32::from_bits(r.next() as u32)
                } else {
                    r.unit() * scale
                }
            }
        };
        v.push(x);
    }
    v
}

pub fn gen_c32(g: &Gen, dom: FDom) -> Vec<Complex> {
    let re = gen_f32(g, dom);
    let g2 = Gen {
        pat: if g.pat >= 8 { g.pat } else { (g.pat + (g.seed >> 8) as u8 % 3) % 8 },
        len: g.len,
        seed: g.seed ^ 0x5555_aaaa,
    };
    let mut im = gen_f32(&g2, dom);
    if g.pat >= 8 {
        // both components share the gate, so that gaps are exact complex zeroes
        let inner = Gen { pat: if g.pat == 8 { 0 } else { 6 }, ..g2 };
        im = gen_f32(&inner, dom);
        for (x, on) in im.iter_mut().zip(gate_mask(g.len as usize, g.seed | 1)) {
            if !on {
                *x = 0.0;
            }
        }
    }
    re.into_iter().zip(im).map(|(a, b)| Complex::new(a, b)).collect()
}

#[derive(Clone, Copy, Debug, PartialEq, Eq)]
pub enum BDom {
    Bytes,
    Bits,
}

pub fn gen_u8(g: &Gen, dom: BDom) -> Vec<u8> {
    let mut r = XRng::new(g.seed as u64 ^ 0xb8);
    let n = g.len as usize;
    let period = 1 + (g.seed as usize % 13);
    let c = r.next() as u8;
    let mut v = Vec::with_capacity(n);
    for i in 0..n {
        let x: u8 = match g.pat % 8 {
            0 | 5 | 7 => r.next() as u8,
            1 => 0,
            2 => c,
            3 => {
                if (i / period) % 2 == 0 { 0xff } else { 0 }
            }
            4 => i as u8,
            _ => {
                // long runs of ones (bit stuffing territory) with occasional zeros
                if r.below(7) == 0 { 0 } else { 0xff }
            }
        };
        v.push(match dom {
            BDom::Bytes => x,
            BDom::Bits => x & 1,
        });
    }
    v
}

pub fn gen_u32_small(g: &Gen) -> Vec<u32> {
    // small values: integer arithmetic blocks must not overflow (documented panic)
    gen_u8(g, BDom::Bytes).into_iter().map(|x| x as u32 * 3).collect()
}

/// Packets of bytes: count = len (capped), each 0..maxlen long.
pub fn gen_pkts_u8(g: &Gen, max_pkts: usize, maxlen: usize) -> Vec<Vec<u8>> {
    let mut r = XRng::new(g.seed as u64 ^ 0x9c);
    let n = (g.len as usize).min(max_pkts);
    (0..n)
        .map(|i| {
            let l = match g.pat % 4 {
                0 => r.below(maxlen as u64 + 1) as usize,
                1 => (i % 3).min(maxlen),
                2 => maxlen,
                _ => r.below(4) as usize,
            };
            (0..l).map(|_| r.next() as u8).collect()
        })
        .collect()
}

pub fn gen_pkts_f32(g: &Gen, max_pkts: usize, maxlen: usize, dom: FDom) -> Vec<Vec<f32>> {
    let mut r = XRng::new(g.seed as u64 ^ 0x9f);
    let n = (g.len as usize).min(max_pkts);
    (0..n)
        .map(|i| {
            let l = match g.pat % 4 {
                0 => r.below(maxlen as u64 + 1) as usize,
                1 => i % 9,
                2 => maxlen,
                _ => r.below(12) as usize,
            };
            let gg = Gen {
                pat: (g.pat / 4).wrapping_add(i as u8) % 8,
                len: l as u32,
                seed: r.next() as u32,
            };
            gen_f32(&gg, dom)
        })
        .collect()
}
