//! Harness-defined blocks built with the derive macro (C19): sync and sync_tag mode with
//! 1..2 inputs x 1..3 outputs, `default` / `into` fields, and a non-sync block with a
//! generated constructor over mixed copy / non-copy outputs.
//! (Three-input sync blocks do not compile with the macro's nested zip; recorded in the
//! evidence as "not constructible", a compile-time refusal.)
use std::borrow::Cow;

use rustradio::Result;
use rustradio::block::{Block, BlockRet};
use rustradio::stream::{NCWriteStream, ReadStream, Tag, TagValue, WriteStream};

pub fn f0(a: u32, b: u32, k: u32) -> u32 {
    a.wrapping_mul(3).wrapping_add(b).wrapping_add(k)
}
pub fn f1(a: u32, b: u32, _k: u32) -> u32 {
    a ^ b ^ 0x55
}
pub fn f2(a: u32, b: u32, k: u32) -> u32 {
    a.wrapping_sub(b).wrapping_add(k.wrapping_mul(2))
}

#[derive(rustradio::rustradio_macros::Block)]
#[rustradio(new, sync)]
pub struct S11 {
    #[rustradio(in)]
    a: ReadStream<u32>,
    #[rustradio(out)]
    x: WriteStream<u32>,
    k: u32,
}
impl S11 {
    fn process_sync(&self, a: u32) -> u32 {
        crate::drip::probe_bump();
        f0(a, 0, self.k)
    }
}

#[derive(rustradio::rustradio_macros::Block)]
#[rustradio(new, sync)]
pub struct S12 {
    #[rustradio(in)]
    a: ReadStream<u32>,
    #[rustradio(out)]
    x: WriteStream<u32>,
    #[rustradio(out)]
    y: WriteStream<u32>,
    k: u32,
}
impl S12 {
    fn process_sync(&self, a: u32) -> (u32, u32) {
        crate::drip::probe_bump();
        (f0(a, 0, self.k), f1(a, 0, self.k))
    }
}

#[derive(rustradio::rustradio_macros::Block)]
#[rustradio(new, sync)]
pub struct S13 {
    #[rustradio(in)]
    a: ReadStream<u32>,
    #[rustradio(out)]
    x: WriteStream<u32>,
    #[rustradio(out)]
    y: WriteStream<u32>,
    #[rustradio(out)]
    z: WriteStream<u32>,
    k: u32,
}
impl S13 {
    fn process_sync(&self, a: u32) -> (u32, u32, u32) {
        crate::drip::probe_bump();
        (f0(a, 0, self.k), f1(a, 0, self.k), f2(a, 0, self.k))
    }
}

#[derive(rustradio::rustradio_macros::Block)]
#[rustradio(new, sync)]
pub struct S21 {
    #[rustradio(in)]
    a: ReadStream<u32>,
    #[rustradio(in)]
    b: ReadStream<u32>,
    #[rustradio(out)]
    x: WriteStream<u32>,
    k: u32,
}
impl S21 {
    fn process_sync(&self, a: u32, b: u32) -> u32 {
        crate::drip::probe_bump();
        f0(a, b, self.k)
    }
}

#[derive(rustradio::rustradio_macros::Block)]
#[rustradio(new, sync)]
pub struct S22 {
    #[rustradio(in)]
    a: ReadStream<u32>,
    #[rustradio(in)]
    b: ReadStream<u32>,
    #[rustradio(out)]
    x: WriteStream<u32>,
    #[rustradio(out)]
    y: WriteStream<u32>,
    k: u32,
}
impl S22 {
    fn process_sync(&self, a: u32, b: u32) -> (u32, u32) {
        crate::drip::probe_bump();
        (f0(a, b, self.k), f1(a, b, self.k))
    }
}

#[derive(rustradio::rustradio_macros::Block)]
#[rustradio(new, sync)]
pub struct S23 {
    #[rustradio(in)]
    a: ReadStream<u32>,
    #[rustradio(in)]
    b: ReadStream<u32>,
    #[rustradio(out)]
    x: WriteStream<u32>,
    #[rustradio(out)]
    y: WriteStream<u32>,
    #[rustradio(out)]
    z: WriteStream<u32>,
    k: u32,
}
impl S23 {
    fn process_sync(&self, a: u32, b: u32) -> (u32, u32, u32) {
        crate::drip::probe_bump();
        (f0(a, b, self.k), f1(a, b, self.k), f2(a, b, self.k))
    }
}

/// Key of the tag the sync_tag test blocks add on samples divisible by 7.
pub const DKEY: &str = "d7";

#[derive(rustradio::rustradio_macros::Block)]
#[rustradio(new, sync_tag)]
pub struct T11 {
    #[rustradio(in)]
    a: ReadStream<u32>,
    #[rustradio(out)]
    x: WriteStream<u32>,
    k: u32,
}
impl T11 {
    fn process_sync_tags<'a>(&mut self, a: u32, tags: &'a [Tag]) -> (u32, Cow<'a, [Tag]>) {
        crate::drip::probe_bump();
        let o = f0(a, 0, self.k);
        if a % 7 == 0 {
            let mut t = tags.to_vec();
            t.push(Tag::new(0, DKEY, TagValue::U64(a as u64)));
            (o, Cow::Owned(t))
        } else {
            (o, Cow::Borrowed(tags))
        }
    }
}

#[derive(rustradio::rustradio_macros::Block)]
#[rustradio(new, sync_tag)]
pub struct T21 {
    #[rustradio(in)]
    a: ReadStream<u32>,
    #[rustradio(in)]
    b: ReadStream<u32>,
    #[rustradio(out)]
    x: WriteStream<u32>,
    k: u32,
}
impl T21 {
    fn process_sync_tags<'a>(&mut self, a: u32, tags: &'a [Tag], b: u32, _btags: &'a [Tag]) -> (u32, Cow<'a, [Tag]>) {
        crate::drip::probe_bump();
        let o = f0(a, b, self.k);
        if a % 7 == 0 {
            let mut t = tags.to_vec();
            t.push(Tag::new(0, DKEY, TagValue::U64(a as u64)));
            (o, Cow::Owned(t))
        } else {
            (o, Cow::Borrowed(tags))
        }
    }
}

/// `default` and `into` fields.
#[derive(rustradio::rustradio_macros::Block)]
#[rustradio(new, sync)]
pub struct SDefInto {
    #[rustradio(in)]
    a: ReadStream<u32>,
    #[rustradio(out)]
    x: WriteStream<u32>,
    #[rustradio(into)]
    k: u64,
    #[rustradio(default)]
    count: u32,
    #[rustradio(default)]
    seen: Vec<u32>,
}
impl SDefInto {
    fn process_sync(&mut self, a: u32) -> u32 {
        crate::drip::probe_bump();
        // `count` must start at its Default (0): the output depends on it
        self.count = self.count.wrapping_add(1);
        if self.seen.len() < 4 {
            self.seen.push(a);
        }
        f0(a, self.count, self.k as u32)
    }
}

/// Non-sync block: generated `new()` over a copy and a non-copy output, generated eof().
#[derive(rustradio::rustradio_macros::Block)]
#[rustradio(new)]
pub struct N12 {
    #[rustradio(in)]
    a: ReadStream<u32>,
    #[rustradio(out)]
    x: WriteStream<u32>,
    #[rustradio(out)]
    p: NCWriteStream<Vec<u32>>,
    k: u32,
}
impl Block for N12 {
    fn work(&mut self) -> Result<BlockRet> {
        let (i, _tags) = self.a.read_buf()?;
        if i.is_empty() {
            return Ok(BlockRet::WaitForStream(&self.a, 1));
        }
        let mut o = self.x.write_buf()?;
        if o.is_empty() {
            return Ok(BlockRet::WaitForStream(&self.x, 1));
        }
        let n = i.len().min(o.len());
        for (d, s) in o.slice().iter_mut().zip(i.iter()).take(n) {
            *d = f0(*s, 0, self.k);
        }
        // one packet per sample whose value is divisible by 5
        for s in i.iter().take(n) {
            if *s % 5 == 0 {
                self.p.push(vec![*s, self.k], &[]);
            }
        }
        o.produce(n, &[]);
        i.consume(n);
        Ok(BlockRet::Again)
    }
}
