//! Harness-defined blocks built with the derive macro (C19): sync and sync_tag mode with
//! 1..2 inputs x 1..3 outputs, `default` / `into` fields, and a non-sync block with a
//! generated constructor over mixed copy / non-copy outputs.
//! (Three-input sync blocks do not compile with the macro's nested zip; recorded in the
//! evidence as "not constructible", a compile-time refusal.)
use std::borrow::Cow;

use rustradio::Result;
use rustradio::block::{Block, BlockRet};
use rustradio::stream::{NCWriteStream, ReadStream, Tag, TagValue, WriteStream};

pub fn f0(a: u32, b: u32, k: u32) -> u32 {
    a.wrapping_mul(3).wrapping_add(b).wrapping_add(k)
}
pub fn f1(a: u32, b: u32, _k: u32) -> u32 {
    a ^ b ^ 0x55
}
pub fn f2(a: u32, b: u32, k: u32) -> u32 {
    a.wrapping_sub(b).wrapping_add(k.wrapping_mul(2))
}

#[derive(rustradio::rustradio_macros::Block)]
#[rustradio(new, sync)]
pub struct S11 {
    #[rustradio(in)]
    a: ReadStream<u32>,
    #[rustradio(out)]
    x: WriteStream<u32>,
    k: u32,
}
impl S11 {
    fn process_sync(&self, a: u32) -> u32 {
        crate::drip::probe_bump();
        f0(a, 0, self.k)
    }
}

#[derive(rustradio::rustradio_macros::Block)]
#[rustradio(new, sync)]
pub struct S12 {
    #[rustradio(in)]
    a: ReadStream<u32>,
    #[rustradio(out)]
    x: WriteStream<u32>,
    #[rustradio(out)]
    y: WriteStream<u32>,
    k: u32,
}
impl S12 {
    fn process_sync(&self, a: u32) -> (u32, u32) {
        crate::drip::probe_bump();
        (f0(a, 0, self.k), f1(a, 0, self.k))
    }
}

#[derive(rustradio::rustradio_macros::Block)]
#[rustradio(new, sync)]
pub struct S13 {
    #[rustradio(in)]
    a: ReadStream<u32>,
    #[rustradio(out)]
    x: WriteStream<u32>,
    #[rustradio(out)]
    y: WriteStream<u32>,
    #[rustradio(out)]
    z: WriteStream<u32>,
    k: u32,
}
impl S13 {
    fn process_sync(&self, a: u32) -> (u32, u32, u32) {
        crate::drip::probe_bump();
        (f0(a, 0, self.k), f1(a, 0, self.k), f2(a, 0, self.k))
    }
}

#[derive(rustradio::rustradio_macros::Block)]
#[rustradio(new, sync)]
pub struct S21 {
    #[rustradio(in)]
    a: ReadStream<u32>,
    #[rustradio(in)]
    b: ReadStream<u32>,
    #[rustradio(out)]
    x: WriteStream<u32>,
    k: u32,
}
impl S21 {
    fn process_sync(&self, a: u32, b: u32) -> u32 {
        crate::drip::probe_bump();
        f0(a, b, self.k)
    }
}

#[derive(rustradio::rustradio_macros::Block)]
#[rustradio(new, sync)]
pub struct S22 {
    #[rustradio(in)]
    a: ReadStream<u32>,
    #[rustradio(in)]
    b: ReadStream<u32>,
    #[rustradio(out)]
    x: WriteStream<u32>,
    #[rustradio(out)]
    y: WriteStream<u32>,
    k: u32,
}
impl S22 {
    fn process_sync(&self, a: u32, b: u32) -> (u32, u32) {
        crate::drip::probe_bump();
        (f0(a, b, self.k), f1(a, b, self.k))
    }
}

#[derive(rustradio::rustradio_macros::Block)]
#[rustradio(new, sync)]
pub struct S23 {
    #[rustradio(in)]
    a: ReadStream<u32>,
    #[rustradio(in)]
    b: ReadStream<u32>,
    #[rustradio(out)]
    x: WriteStream<u32>,
    #[rustradio(out)]
    y: WriteStream<u32>,
    #[rustradio(out)]
    z: WriteStream<u32>,
    k: u32,
}
impl S23 {
    fn process_sync(&self, a: u32, b: u32) -> (u32, u32, u32) {
        crate::drip::probe_bump();
        (f0(a, b, self.k), f1(a, b, self.k), f2(a, b, self.k))
    }
}

/// Key of the tag the sync_tag test blocks add on samples divisible by 7.
pub const DKEY: &str = "d7";
/// key under which T21 forwards the tags of its second input
pub const BKEY: &str = "hb";

#[derive(rustradio::rustradio_macros::Block)]
#[rustradio(new, sync_tag)]
pub struct T11 {
    #[rustradio(in)]
    a: ReadStream<u32>,
    #[rustradio(out)]
    x: WriteStream<u32>,
    k: u32,
}
impl T11 {
    fn process_sync_tags<'a>(&mut self, a: u32, tags: &'a [Tag]) -> (u32, Cow<'a, [Tag]>) {
        crate::drip::probe_bump();
        let o = f0(a, 0, self.k);
        if a % 7 == 0 {
            let mut t = tags.to_vec();
            t.push(Tag::new(0, DKEY, TagValue::U64(a as u64)));
            (o, Cow::Owned(t))
        } else {
            (o, Cow::Borrowed(tags))
        }
    }
}

#[derive(rustradio::rustradio_macros::Block)]
#[rustradio(new, sync_tag)]
pub struct T21 {
    #[rustradio(in)]
    a: ReadStream<u32>,
    #[rustradio(in)]
    b: ReadStream<u32>,
    #[rustradio(out)]
    x: WriteStream<u32>,
    k: u32,
}
impl T21 {
    fn process_sync_tags<'a>(&mut self, a: u32, tags: &'a [Tag], b: u32, btags: &'a [Tag]) -> (u32, Cow<'a, [Tag]>) {
        crate::drip::probe_bump();
        let o = f0(a, b, self.k);
        if a % 7 == 0 || !btags.is_empty() {
            // first input's tags, then the block's own, then the second input's under key BKEY
            let mut t = tags.to_vec();
            if a % 7 == 0 {
                t.push(Tag::new(0, DKEY, TagValue::U64(a as u64)));
            }
            for bt in btags {
                t.push(Tag::new(0, BKEY, bt.val().clone()));
            }
            (o, Cow::Owned(t))
        } else {
            (o, Cow::Borrowed(tags))
        }
    }
}

/// `default` and `into` fields.
#[derive(rustradio::rustradio_macros::Block)]
#[rustradio(new, sync)]
pub struct SDefInto {
    #[rustradio(in)]
    a: ReadStream<u32>,
    #[rustradio(out)]
    x: WriteStream<u32>,
    #[rustradio(into)]
    k: u64,
    /// a plain field declared *after* the `into` field, with an interchangeable argument type:
    /// the generated `new()` takes the untagged fields in declaration order
    m: u32,
    #[rustradio(default)]
    count: u32,
    #[rustradio(default)]
    seen: Vec<u32>,
}
impl SDefInto {
    fn process_sync(&mut self, a: u32) -> u32 {
        crate::drip::probe_bump();
        // `count` must start at its Default (0): the output depends on it
        self.count = self.count.wrapping_add(1);
        if self.seen.len() < 4 {
            self.seen.push(a);
        }
        f0(a, self.count, self.k as u32).wrapping_add(self.m.wrapping_mul(5))
    }
}

/// Non-sync block: generated `new()` over a copy and a non-copy output, generated eof().
#[derive(rustradio::rustradio_macros::Block)]
#[rustradio(new)]
pub struct N12 {
    #[rustradio(in)]
    a: ReadStream<u32>,
    #[rustradio(out)]
    x: WriteStream<u32>,
    #[rustradio(out)]
    p: NCWriteStream<Vec<u32>>,
    k: u32,
}
impl Block for N12 {
    fn work(&mut self) -> Result<BlockRet> {
        let (i, _tags) = self.a.read_buf()?;
        if i.is_empty() {
            return Ok(BlockRet::WaitForStream(&self.a, 1));
        }
        let mut o = self.x.write_buf()?;
        if o.is_empty() {
            return Ok(BlockRet::WaitForStream(&self.x, 1));
        }
        let n = i.len().min(o.len());
        for (d, s) in o.slice().iter_mut().zip(i.iter()).take(n) {
            *d = f0(*s, 0, self.k);
        }
        // one packet per sample whose value is divisible by 5
        for s in i.iter().take(n) {
            if *s % 5 == 0 {
                self.p.push(vec![*s, self.k], &[]);
            }
        }
        o.produce(n, &[]);
        i.consume(n);
        Ok(BlockRet::Again)
    }
}

// ---------------------------------------------------------------------------------------
// Delay with set_delay(): a composite that makes the retune points a function of the
// stream, not of the chunking.  src -> (s1) -> Delay -> (s2) -> dst.
//
//  * `early` delays are applied with set_delay() right after construction, before the
//    block has written anything: the block must then behave like Delay::new(last).
//  * `mid = (at, d)` is applied once the inner Delay has taken exactly `at` input samples
//    and everything the delay line owes for them has come out (so no zeros or skips are
//    pending): raising the delay then inserts d - cur zeros, lowering it drops the next
//    cur - d input samples (and their tags).
#[derive(rustradio::rustradio_macros::Block)]
#[rustradio(noeof)]
pub struct DelayRetune {
    #[rustradio(in)]
    src: ReadStream<u8>,
    #[rustradio(out)]
    dst: WriteStream<u8>,
    inner: rustradio::delay::Delay<u8>,
    s1w: WriteStream<u8>,
    s2r: ReadStream<u8>,
    cap1: usize,
    /// delay in force before the mid retune
    d_eff: usize,
    mid: Option<(usize, usize)>,
    /// set_delay() values applied right before the mid value, without any work() between
    mid_pre: Vec<usize>,
    retuned: bool,
    forwarded: usize,
    moved: usize,
}
impl DelayRetune {
    pub fn new(src: ReadStream<u8>, d0: usize, early: &[usize], mid: Option<(usize, usize)>, mid_pre: &[usize]) -> (Self, ReadStream<u8>) {
        let (s1w, s1r) = rustradio::stream::new_stream::<u8>();
        let (mut inner, s2r) = rustradio::delay::Delay::new(s1r, d0);
        let mut d_eff = d0;
        for d in early {
            inner.set_delay(*d);
            d_eff = *d;
        }
        let (dst, out) = rustradio::stream::new_stream::<u8>();
        let cap1 = s1w.free();
        (Self { src, dst, inner, s1w, s2r, cap1, d_eff, mid, mid_pre: mid_pre.to_vec(), retuned: false, forwarded: 0, moved: 0 }, out)
    }
}
impl rustradio::block::BlockEOF for DelayRetune {
    fn eof(&mut self) -> bool {
        self.src.eof() && self.s1w.free() == self.cap1 && self.s2r.verif_available() == 0
    }
}
impl Block for DelayRetune {
    fn work(&mut self) -> Result<BlockRet> {
        let mut progress = false;
        // inner output -> our output
        {
            let (i, tags) = self.s2r.read_buf()?;
            let mut o = self.dst.write_buf()?;
            let n = i.len().min(o.len());
            if n > 0 {
                o.fill_from_slice(&i.slice()[..n]);
                o.produce(n, &tags);
                i.consume(n);
                self.moved += n;
                progress = true;
            }
        }
        // retune at the agreed stream position
        if let (false, Some((at, d))) = (self.retuned, self.mid) {
            if self.forwarded == at && self.s1w.free() == self.cap1 && self.moved + self.s2r.verif_available() == self.d_eff + at {
                for p in &self.mid_pre {
                    self.inner.set_delay(*p);
                }
                self.inner.set_delay(d);
                self.retuned = true;
                progress = true;
            }
        }
        // our input -> inner input
        let limit = match (self.retuned, self.mid) {
            (false, Some((at, _))) => at - self.forwarded,
            _ => usize::MAX,
        };
        let src_empty;
        {
            let (i, tags) = self.src.read_buf()?;
            src_empty = i.is_empty();
            let mut o = self.s1w.write_buf()?;
            let n = i.len().min(o.len()).min(limit);
            if n > 0 {
                o.fill_from_slice(&i.slice()[..n]);
                o.produce(n, &tags);
                i.consume(n);
                self.forwarded += n;
                progress = true;
            }
        }
        let before = (self.s1w.free(), self.s2r.verif_available());
        // (the inner block's own verdict is passed on when it says "call me again": a Delay
        // that keeps saying so without moving anything shows up as an idle spin)
        let inner_again = matches!(self.inner.work()?, BlockRet::Again);
        if (self.s1w.free(), self.s2r.verif_available()) != before {
            progress = true;
        }
        Ok(if progress || inner_again {
            BlockRet::Again
        } else if src_empty {
            BlockRet::WaitForStream(&self.src, 1)
        } else {
            BlockRet::WaitForStream(&self.dst, 1)
        })
    }
}
