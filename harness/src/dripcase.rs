//! A generated drip case (block spec x inputs x tag plan x stream sizes x schedule) and
//! the helper that runs the drip run and its one-shot twin.
use proptest::prelude::*;
use rustradio::stream::TagValue;
use serde::{Deserialize, Serialize};

use crate::catalog::*;
use crate::drip::*;
use crate::gens::*;

#[derive(Clone, Debug, Serialize, Deserialize, PartialEq)]
pub struct DripCase {
    pub spec: BlockSpec,
    pub gens: [Gen; 3],
    /// harness propagation tags on every multiple of this index (0 = none)
    pub tag_every: u16,
    pub in_pages: u8,
    pub out_pages: u8,
    pub schedule: Vec<Step>,
    /// per-round feed / free amounts of the drain phase
    #[serde(default = "sz_all")]
    pub drain_feed: crate::ring::Sz,
    #[serde(default = "sz_all")]
    pub drain_free: crate::ring::Sz,
    /// the writers of the inputs go away as soon as everything has been fed, even if the
    /// block is still clogged (instead of after it went quiet)
    #[serde(default)]
    pub close_early: bool,
    /// drain phase: one output port per round, in rotation
    #[serde(default)]
    pub lopsided: bool,
}
fn sz_all() -> crate::ring::Sz {
    crate::ring::Sz::All
}

/// True if the drain phase moves only a few units per round (then inputs are capped so
/// that a case stays cheap).
pub fn stingy(s: crate::ring::Sz) -> bool {
    use crate::ring::Sz;
    matches!(s, Sz::Zero | Sz::One | Sz::Two) || matches!(s, Sz::Frac(f) if f < 4096)
}

pub fn dripcase_strategy(
    spec: BoxedStrategy<BlockSpec>,
    max_len: u32,
    max_sched: usize,
    tag_every: BoxedStrategy<u16>,
) -> BoxedStrategy<DripCase> {
    (
        spec,
        [gen_strategy(max_len), gen_strategy(max_len), gen_strategy(max_len)],
        tag_every,
        // mostly 1-4 pages (wrap and full states are routine); one case in eight per side gets a
        // 16 or 64 page stream, so that a single work() window can hold tens of thousands of
        // samples (per-call caps inside a block)
        prop_oneof![14 => 1u8..5, 1 => Just(16u8), 1 => Just(64u8)],
        prop_oneof![14 => 1u8..5, 1 => Just(16u8), 1 => Just(64u8)],
        schedule_strategy(max_sched),
        drain_sz(),
        (drain_sz(), prop::bool::weighted(0.3), prop::bool::weighted(0.3)),
    )
        .prop_map(|(spec, gens, tag_every, in_pages, out_pages, schedule, drain_feed, (drain_free, close_early, lopsided))| DripCase {
            spec,
            gens,
            tag_every,
            in_pages,
            out_pages,
            schedule,
            drain_feed,
            drain_free,
            close_early,
            lopsided,
        })
        .boxed()
}

/// Per-round amounts for the drain phase: everything, or deliberately little (so that the
/// block keeps seeing a nearly empty input / nearly full output).
pub fn drain_sz() -> impl Strategy<Value = crate::ring::Sz> {
    use crate::ring::Sz;
    prop_oneof![
        4 => Just(Sz::All),
        2 => Just(Sz::One),
        1 => Just(Sz::Two),
        1 => Just(Sz::AllM1),
        3 => (0u16..4096).prop_map(Sz::Frac),
        2 => any::<u16>().prop_map(Sz::Frac),
    ]
}

pub fn drive_opts(case: &DripCase) -> DriveOpts {
    DriveOpts {
        drain_feed: case.drain_feed,
        drain_free: case.drain_free,
        close_early: case.close_early,
        lopsided: case.lopsided,
        ..DriveOpts::default()
    }
}

pub struct Prepared {
    pub inputs: Vec<InputData>,
    /// per input port
    pub tags: Vec<Vec<ITag>>,
    pub script: Vec<ITag>,
}

pub fn prepare(case: &DripCase) -> Prepared {
    let mut gens = case.gens;
    if stingy(case.drain_feed) || stingy(case.drain_free) {
        for g in gens.iter_mut() {
            g.len = g.len.min(2500);
        }
    }
    let case = &DripCase { gens, ..case.clone() };
    let mut inputs = case.spec.make_inputs(&case.gens);
    // packets -> stream: one case in four carries a packet that fills the (drip) output stream
    // exactly, and one that is a sample short of that
    if matches!(case.spec, BlockSpec::VecToStreamU8) && case.gens[0].seed % 4 == 0 {
        if let Some(InputData::PU8(pk)) = inputs.first_mut() {
            let cap = stream_bytes(&case.spec, case.out_pages);
            let at = (case.gens[0].seed as usize / 4) % (pk.len() + 1);
            pk.insert(at, (0..cap).map(|i| (i * 7 + 3) as u8).collect());
            pk.insert(0, (0..cap - 1).map(|i| (i * 5 + 1) as u8).collect());
        }
    }
    let len0 = inputs.first().map(|d| d.len()).unwrap_or(0);
    let script = case.spec.script_tags(&case.gens, len0);
    let mut tags: Vec<Vec<ITag>> = vec![Vec::new(); inputs.len()];
    if !inputs.is_empty() {
        tags[0].extend(script.iter().cloned());
    }
    if case.tag_every > 0 {
        for (pi, d) in inputs.iter().enumerate() {
            if matches!(d, InputData::PU8(_) | InputData::PF32(_)) {
                continue;
            }
            let key = if pi == 0 { HKEY.to_string() } else { format!("{HKEY}{pi}") };
            // at most ~600 harness tags per port (every read window copies all buffered tags)
            let k = (case.tag_every as usize).max(d.len() / 600).max(1);
            let mut i = 0;
            while i < d.len() {
                tags[pi].push((i, key.clone(), TagValue::U64(i as u64)));
                // a second tag on some samples: order among tags of one sample matters
                if (i / k) % 5 == 0 {
                    tags[pi].push((i, key.clone(), TagValue::U64(1_000_000 + i as u64)));
                }
                // ... and some tags twice, identically: two tags are two tags
                if (i / k) % 7 == 3 {
                    tags[pi].push((i, key.clone(), TagValue::U64(i as u64)));
                }
                i += k;
            }
        }
    }
    Prepared { inputs, tags, script }
}

pub fn build_drip(case: &DripCase, prep: &Prepared) -> Built {
    case.spec.build(
        prep.inputs.clone(),
        prep.tags.clone(),
        Some(stream_bytes(&case.spec, case.in_pages)),
        Some(stream_bytes(&case.spec, case.out_pages)),
    )
}

pub fn build_oneshot(case: &DripCase, prep: &Prepared) -> Built {
    case.spec.build(prep.inputs.clone(), prep.tags.clone(), None, None)
}
