//! E7: byte-level fuzz entry points, shared by the proptest-driven quick tier (C15), the
//! libFuzzer targets in /verif/fuzz and single-input replay.  Every entry decodes the
//! bytes into structured arguments, builds fresh blocks (no state survives an iteration;
//! the stream-size override is reset), runs them to quiescence under a step bound and
//! applies the oracle inside the target: no unwind out of work()/parser (an Err is fine),
//! no idle spin, step bound respected.
use rustradio::Complex;
use rustradio::blocks::*;
use rustradio::stream::TagValue;

use crate::catalog::BlockSpec;
use crate::drip::*;
use crate::engine::{PanicInfo, catch, loc_file};
use crate::ring::Sz;

pub const TARGETS: &[&str] = &[
    "au_decode",
    "hdlc_bits",
    "il2p_bits",
    "sigmf_meta",
    "sigmf_archive",
    "stream_to_pdu",
    "vec_to_stream",
    "wpcr",
    "midpointer",
    "float_blocks",
    "sample_parse",
];

/// A finding of a fuzz entry: (signature, message).
pub type Finding = (String, String);

/// Values used when bytes are decoded into floats: specials first.
pub const FLOATS: [f32; 16] = [
    -1.0,
    0.0,
    1.0,
    f32::INFINITY,
    f32::NEG_INFINITY,
    f32::NAN,
    1.0e-38,
    3.4e38,
    -3.4e38,
    0.5,
    -0.5,
    1.0e-45,
    -0.0,
    2.0,
    1000.0,
    -7.25,
];

fn f_of(b: u8) -> f32 {
    if b < 128 { FLOATS[(b & 15) as usize] } else { (b as f32 - 192.0) / 32.0 }
}

fn panic_finding(target: &str, block: &str, pi: &PanicInfo) -> Finding {
    (
        format!("C15/{target}/panic/{block}/{}", loc_file(&pi.loc)),
        format!("{block} panicked at {}: {}", pi.loc, pi.msg),
    )
}

fn drive_and_judge(target: &str, mut b: Built, sched: &[Step], feed: Sz, out: &mut Vec<Finding>) {
    let is_source = b.ins.is_empty();
    let name = b.name.clone();
    let opts = DriveOpts {
        drain_feed: feed,
        max_calls: 40_000,
        verdict_checks: true,
        ..DriveOpts::default()
    };
    let log = drive(&mut b, sched, &opts);
    if std::env::var_os("VERIF_DEBUG").is_some() {
        eprintln!("{name}: ncalls={} findings={:?} eof_at={:?} last={:?}", log.ncalls, log.findings, log.eof_at, log.calls.iter().rev().take(4).map(|c| (format!("{:?}", c.verdict), c.named)).collect::<Vec<_>>());
    }
    if let Some(pi) = &log.panic {
        out.push(panic_finding(target, &name, pi));
    }
    for (kind, msg) in &log.findings {
        if kind == "idle-spin" {
            out.push((format!("C15/{target}/spin/{name}"), format!("{name}: {msg}")));
        }
    }
    // a finite source whose output is always drained must finish; one that stops moving data
    // without reporting EOF (it keeps asking to be called for room it already has) is what
    // the multithreaded runner turns into a busy loop
    if is_source && !log.step_budget_hit && log.panic.is_none() && log.error.is_none() && log.eof_at.is_none() && log.ncalls >= 3 {
        out.push((
            format!("C15/{target}/never-finishes/{name}"),
            format!("{name} stopped producing after {} work() calls without ever returning EOF (last verdicts: {:?})", log.ncalls, log.calls.iter().rev().take(3).map(|c| format!("{:?}", c.verdict)).collect::<Vec<_>>()),
        ));
    }
    // a block whose inputs have ended and are drained must let a runner retire it (EOF, a wait
    // on an ended input, or eof()): one that keeps asking to be called for something else
    // never finishes under the multithreaded runner
    if !is_source && !log.step_budget_hit && log.panic.is_none() && log.error.is_none() && log.calls_after_close > 0 && log.eof_at.is_none() {
        let named_closed = log.calls.iter().rev().take(3).any(|c| c.named.map(|n| n.2).unwrap_or(false));
        if !named_closed && !log.block_eof {
            out.push((
                format!("C15/{target}/never-retires/{name}"),
                format!(
                    "{name}: input ended and drained {} calls ago, but the block neither returned EOF nor waits on the ended input nor reports eof() (last verdicts: {:?})",
                    log.calls_after_close,
                    log.calls.iter().rev().take(3).map(|c| format!("{:?}", c.verdict)).collect::<Vec<_>>()
                ),
            ));
        }
    }
    if log.step_budget_hit {
        out.push((
            format!("C15/{target}/no-quiescence/{name}"),
            format!("{name} was still being called after {} work() calls on {} input units", log.ncalls, log.in_lens.iter().sum::<usize>()),
        ));
    }
}

fn sched_from(bytes: &[u8]) -> Vec<Step> {
    bytes
        .iter()
        .take(24)
        .map(|b| match b % 4 {
            0 => Step::Feed { port: 0, k: Sz::Frac((*b as u16) << 8) },
            1 => Step::Free { port: 0, j: Sz::Frac((*b as u16) << 8) },
            _ => Step::Work,
        })
        .collect()
}

/// Recompute the checksum of every 512-byte block that still looks like a ustar header.
pub fn tar_fix_checksums(d: &mut [u8]) {
    let mut off = 0;
    while off + 512 <= d.len() {
        if &d[off + 257..off + 262] == b"ustar" {
            let sum: u32 = d[off..off + 512].iter().enumerate().map(|(i, b)| if (148..156).contains(&i) { 32 } else { *b as u32 }).sum();
            let txt = format!("{:06o}\0 ", sum);
            d[off + 148..off + 156].copy_from_slice(txt.as_bytes());
        }
        off += 512;
    }
}

/// Offsets of the blocks that look like ustar headers.
pub fn tar_headers(d: &[u8]) -> Vec<usize> {
    (0..d.len() / 512).map(|i| i * 512).filter(|off| &d[off + 257..off + 262] == b"ustar").collect()
}

/// Run one target on one input. Returns every finding (empty = held).
pub fn run_target(target: &str, data: &[u8]) -> Vec<Finding> {
    // with logging enabled down to `trace`, the arguments of every log statement in the
    // library are evaluated (they may index or unwrap on input-derived values); the default
    // no-op logger discards the records
    log::set_max_level(log::LevelFilter::Trace);
    rustradio::verif::set_stream_size(None);
    let mut out = Vec::new();
    let (head, body) = data.split_at(data.len().min(4));
    let h = |i: usize| head.get(i).copied().unwrap_or(0);
    let feed = match h(3) % 4 {
        0 => Sz::All,
        1 => Sz::One,
        2 => Sz::Frac(3000),
        _ => Sz::Frac(30000),
    };
    let size = Some(4096 * (1 + (h(3) as usize >> 6)));
    // stingy feeding costs one work() call per unit: keep those inputs short
    let body = if matches!(feed, Sz::One | Sz::Frac(3000)) { &body[..body.len().min(200)] } else { body };
    // (file contents are not fed through a stream: never cut them)
    let data = if matches!(feed, Sz::One | Sz::Frac(3000)) && !target.starts_with("sigmf") { &data[..data.len().min(400)] } else { data };
    match target {
        "au_decode" => {
            let spec = BlockSpec::AuDecode;
            let b = spec.build(vec![InputData::U8(data.to_vec())], vec![], size, size);
            drive_and_judge(target, b, &sched_from(data), feed, &mut out);
        }
        "hdlc_bits" => {
            let spec = BlockSpec::Hdlc { min: (h(0) % 8) as u16, max: 2 + (h(1) % 64) as u16, checksum: h(2) & 1 == 1, fix: h(2) & 2 == 2 };
            // bits: each byte expanded LSB first so that byte-level mutations make flags/stuffing
            let bits: Vec<u8> = body.iter().flat_map(|b| (0..8).map(move |i| (b >> i) & 1)).collect();
            let b = spec.build(vec![InputData::U8(bits)], vec![], size, None);
            drive_and_judge(target, b, &sched_from(head), feed, &mut out);
        }
        "il2p_bits" => {
            let bits: Vec<u8> = body.iter().flat_map(|b| (0..8).map(move |i| (b >> i) & 1)).collect();
            let n = bits.len();
            let mut tags = Vec::new();
            if n > 0 {
                for (i, b) in head.iter().enumerate() {
                    let pos = (*b as usize * 131 + i * 977) % n;
                    tags.push((pos, "sync".to_string(), TagValue::Bool(true)));
                }
            }
            let b = BlockSpec::Il2p.build(vec![InputData::U8(bits)], vec![tags], size, None);
            drive_and_judge(target, b, &sched_from(head), feed, &mut out);
        }
        "sigmf_meta" => {
            let text = String::from_utf8_lossy(data).to_string();
            if let Err(pi) = catch(|| {
                let _ = rustradio::sigmf::parse_meta(&text);
            }) {
                out.push(panic_finding(target, "parse_meta", &pi));
            }
        }
        "sigmf_archive" => {
            // the input as it is, and with the checksums of its tar headers recomputed (so
            // that mutated header fields reach the code behind the checksum test)
            let mut repaired = data.to_vec();
            tar_fix_checksums(&mut repaired);
            let variants: Vec<&[u8]> = if repaired == data { vec![data] } else { vec![data, &repaired] };
            for data in variants {
            let sc = Scratch::new();
            let path = sc.path("fuzz.sigmf");
            if std::fs::write(&path, data).is_ok() {
                // default repeat (once), twice (a truncated last sample meets the next pass), never
                for rep in [None, Some(2u64), Some(0)] {
                    rustradio::verif::set_stream_size(size);
                    let p2 = path.clone();
                    let r = catch(move || match rep {
                        None => rustradio::sigmf::SigMFSource::<Complex>::new(&p2, None),
                        Some(k) => rustradio::sigmf::SigMFSourceBuilder::<Complex>::new(p2).repeat(rustradio::Repeat::finite(k)).build(),
                    });
                    rustradio::verif::set_stream_size(None);
                    match r {
                        Err(pi) => out.push(panic_finding(target, "SigMFSource::new", &pi)),
                        Ok(Err(e)) => {
                            if std::env::var_os("VERIF_DEBUG").is_some() {
                                eprintln!("SigMFSource ctor: {e}");
                            }
                            break;
                        }
                        Ok(Ok((src, o))) => {
                            let b = Built { scratch: None, sink_probe: None, name: "SigMFSource".into(), block: Box::new(src), ins: vec![], outs: vec![Box::new(SOut::new(o))] };
                            let before = out.len();
                            drive_and_judge(target, b, &[], feed, &mut out);
                            if out.len() > before {
                                break;
                            }
                        }
                    }
                }
            }
            }
        }
        "stream_to_pdu" => {
            let spec = BlockSpec::StreamToPduU8 { max: 1 + (h(0) as u16 % 200), tail: h(1) % 30 };
            let n = body.len();
            let mut tags = Vec::new();
            // tag script from the data itself: bytes >= 0xE0 carry a burst tag
            for (i, b) in body.iter().enumerate() {
                if *b >= 0xE0 {
                    let v = match b & 3 {
                        0 => TagValue::Bool(true),
                        1 => TagValue::Bool(false),
                        2 => TagValue::U64(*b as u64),
                        _ => TagValue::String("x".into()),
                    };
                    tags.push((i, "burst".to_string(), v));
                }
            }
            let _ = n;
            let b = spec.build(vec![InputData::U8(body.to_vec())], vec![tags], size, None);
            drive_and_judge(target, b, &sched_from(head), feed, &mut out);
        }
        "vec_to_stream" => {
            // packets: length-prefixed
            let mut pk = Vec::new();
            let mut i = 0;
            while i < body.len() && pk.len() < 200 {
                let l = (body[i] as usize) % 70;
                i += 1;
                let end = (i + l).min(body.len());
                pk.push(body[i..end].to_vec());
                i = end;
            }
            let b = BlockSpec::VecToStreamU8.build(vec![InputData::PU8(pk)], vec![], None, size);
            drive_and_judge(target, b, &sched_from(head), feed, &mut out);
        }
        "wpcr" | "midpointer" => {
            // bursts: length-prefixed lists of floats
            let mut bursts: Vec<Vec<f32>> = Vec::new();
            let mut i = 0;
            while i < data.len() && bursts.len() < 50 {
                let l = (data[i] as usize) % 40;
                i += 1;
                let end = (i + l).min(data.len());
                bursts.push(data[i..end].iter().map(|b| f_of(*b)).collect());
                i = end;
            }
            run_bursts(target, bursts, &mut out);
        }
        "float_blocks" => {
            let xs: Vec<f32> = body.iter().map(|b| f_of(*b)).collect();
            let cs: Vec<Complex> = body.chunks(2).map(|c| Complex::new(f_of(c[0]), f_of(*c.get(1).unwrap_or(&0)))).collect();
            let sps = 1.1 + (h(1) as f32) / 4.0;
            let specs: Vec<(BlockSpec, InputData)> = match h(0) % 6 {
                0 => vec![(BlockSpec::SymbolSync { sps, maxdev: (h(2) % 100) as f32 / 100.0, t0: 0.5, t1: 0.5, clk: h(2) & 0x80 != 0 }, InputData::F32(xs))],
                1 => vec![(BlockSpec::ZeroCrossing { sps, clk: h(2) & 0x80 != 0 }, InputData::F32(xs))],
                2 => vec![(BlockSpec::QuadDemod { gain: f_of(h(2)) }, InputData::C32(cs))],
                3 => vec![(BlockSpec::FirF32 { taps: crate::catalog::TapSpec { n: 1 + (h(1) % 40) as u16, kind: h(2) % 4, seed: h(2) as u32 }, deci: 1 + h(2) % 4 }, InputData::F32(xs))],
                4 => vec![(BlockSpec::FastFm, InputData::C32(cs))],
                _ => vec![(BlockSpec::BinarySlicer, InputData::F32(xs))],
            };
            for (spec, input) in specs {
                if let BlockSpec::QuadDemod { gain } = &spec {
                    if !gain.is_finite() {
                        continue;
                    }
                }
                let b = spec.build(vec![input], vec![], size, size);
                drive_and_judge(target, b, &sched_from(head), feed, &mut out);
            }
        }
        "sample_parse" => {
            use rustradio::Sample;
            macro_rules! p {
                ($t:ty, $name:expr) => {{
                    let n = <$t as Sample>::size();
                    for c in data.chunks_exact(n).take(64) {
                        if let Err(pi) = catch(|| {
                            if let Ok(v) = <$t as Sample>::parse(c) {
                                let _ = v.serialize();
                            }
                        }) {
                            out.push(panic_finding(target, $name, &pi));
                        }
                    }
                }};
            }
            p!(u8, "u8");
            p!(u32, "u32");
            p!(i32, "i32");
            p!(f32, "f32");
            p!(Complex, "Complex");
        }
        _ => out.push((format!("C15/{target}/unknown-target"), "no such target".into())),
    }
    rustradio::verif::set_stream_size(None);
    out.sort();
    out.dedup_by(|a, b| a.0 == b.0);
    out
}

/// Feed bursts (packets of floats) to Wpcr or Midpointer.
pub fn run_bursts(target: &str, bursts: Vec<Vec<f32>>, out: &mut Vec<Finding>) {
    let (pin, r) = PIn::new(bursts);
    let built = if target == "wpcr" {
        let (b, o) = Wpcr::new(r);
        Built { scratch: None, sink_probe: None, name: "Wpcr".into(), block: Box::new(b), ins: vec![Box::new(pin)], outs: vec![Box::new(POut::new(o))] }
    } else {
        let (b, o) = Midpointer::new(r);
        Built { scratch: None, sink_probe: None, name: "Midpointer".into(), block: Box::new(b), ins: vec![Box::new(pin)], outs: vec![Box::new(POut::new(o))] }
    };
    drive_and_judge(target, built, &[], Sz::All, out);
}

/// The 16+ byte AU header with selected fields mutated, followed by `tail`.
pub fn au_stream(offset: u32, encoding: u32, rate: u32, channels: u32, annotation: &[u8], tail: &[u8]) -> Vec<u8> {
    let mut v = Vec::new();
    v.extend(0x2e736e64u32.to_be_bytes());
    v.extend(offset.to_be_bytes());
    v.extend(0xffff_ffffu32.to_be_bytes());
    v.extend(encoding.to_be_bytes());
    v.extend(rate.to_be_bytes());
    v.extend(channels.to_be_bytes());
    v.extend(annotation);
    v.extend(tail);
    v
}

/// Entry point for libFuzzer targets: panics (so that libFuzzer saves the input) when a
/// finding is not on the allow-list of known findings.
pub fn fuzz_one(target: &str, data: &[u8]) {
    let findings = run_target(target, data);
    if findings.is_empty() {
        return;
    }
    let known = crate::engine::Known::load();
    for (sig, msg) in findings {
        if known.matches("C15", &sig).is_none() {
            // make the finding visible to libFuzzer
            eprintln!("FINDING sig={sig} {msg}");
            std::process::abort();
        }
    }
}
