//! E6: OS-level observation and fault injection.  /proc readers, and child-process modes
//! (the harness binary re-executes itself) so that rlimits, map-count exhaustion and
//! SIGKILL never touch the parent.
use std::io::Read;
use std::process::{Command, Stdio};

use serde_json::{Value, json};

/// Number of mappings of deleted files (stream buffers are mappings of unlinked temp files).
pub fn deleted_mappings() -> usize {
    let s = std::fs::read_to_string("/proc/self/maps").unwrap_or_default();
    s.lines().filter(|l| l.ends_with("(deleted)")).count()
}
pub fn total_mappings() -> usize {
    let s = std::fs::read_to_string("/proc/self/maps").unwrap_or_default();
    s.lines().count()
}
pub fn open_fds() -> usize {
    std::fs::read_dir("/proc/self/fd").map(|d| d.count()).unwrap_or(0)
}

#[derive(Debug, Clone)]
pub struct MapLine {
    pub start: usize,
    pub end: usize,
    pub offset: u64,
    pub inode: u64,
    pub path: String,
}
pub fn maps() -> Vec<MapLine> {
    let s = std::fs::read_to_string("/proc/self/maps").unwrap_or_default();
    s.lines()
        .filter_map(|l| {
            let mut it = l.split_whitespace();
            let range = it.next()?;
            let _perm = it.next()?;
            let off = it.next()?;
            let _dev = it.next()?;
            let inode = it.next()?;
            let path = it.collect::<Vec<_>>().join(" ");
            let (a, b) = range.split_once('-')?;
            Some(MapLine {
                start: usize::from_str_radix(a, 16).ok()?,
                end: usize::from_str_radix(b, 16).ok()?,
                offset: u64::from_str_radix(off, 16).ok()?,
                inode: inode.parse().ok()?,
                path,
            })
        })
        .collect()
}

/// Run this binary in a child mode; returns (exit status code or signal, stdout).
pub fn run_child(args: &[String], timeout_s: u64) -> (Option<i32>, String) {
    let exe = std::env::current_exe().expect("current_exe");
    let mut child = Command::new(exe)
        .args(args)
        .stdin(Stdio::null())
        .stdout(Stdio::piped())
        .stderr(Stdio::piped())
        .spawn()
        .expect("spawn child");
    let mut out = child.stdout.take().unwrap();
    let mut err = child.stderr.take().unwrap();
    let errt = std::thread::spawn(move || {
        let mut e = String::new();
        let _ = err.read_to_string(&mut e);
        e
    });
    let t0 = std::time::Instant::now();
    let mut buf = String::new();
    // children are short; read to end (they exit on their own), but guard with a watchdog
    let pid = child.id();
    let wd = std::thread::spawn(move || {
        while t0.elapsed().as_secs() < timeout_s {
            std::thread::sleep(std::time::Duration::from_millis(50));
            if unsafe { libc::kill(pid as i32, 0) } != 0 {
                return;
            }
        }
        unsafe { libc::kill(pid as i32, libc::SIGKILL) };
    });
    let _ = out.read_to_string(&mut buf);
    let st = child.wait().ok();
    let _ = wd.join();
    let e = errt.join().unwrap_or_default();
    if !e.is_empty() {
        buf.push_str("\nSTDERR: ");
        buf.push_str(&e.chars().take(600).collect::<String>());
    }
    (st.and_then(|s| s.code()), buf)
}

// ---------------------------------------------------------------------------------------
// Child: stream creation under a lowered address-space limit / until the map count is
// exhausted.  Prints one JSON line.

fn small_history(w: &rustradio::stream::WriteStream<u32>, r: &rustradio::stream::ReadStream<u32>) -> bool {
    // a short wrap-forcing E1 history on a surviving stream
    let cap = r.total_size();
    let mut ctr = 1u32;
    let mut expect = std::collections::VecDeque::new();
    for round in 0..5 {
        let mut wb = match w.write_buf() {
            Ok(x) => x,
            Err(_) => return false,
        };
        let n = if round % 2 == 0 { wb.len() } else { wb.len() / 2 };
        for s in wb.slice()[..n].iter_mut() {
            *s = ctr.wrapping_mul(2654435761);
            expect.push_back(*s);
            ctr += 1;
        }
        wb.produce(n, &[]);
        let (rb, _) = match r.read_buf() {
            Ok(x) => x,
            Err(_) => return false,
        };
        if rb.len() != expect.len() || rb.slice().iter().zip(expect.iter()).any(|(a, b)| a != b) {
            return false;
        }
        let k = (rb.len() * 2 / 3).min(cap);
        rb.consume(k);
        for _ in 0..k {
            expect.pop_front();
        }
    }
    true
}

/// Child: threads create, use and drop buffers concurrently; "holders" keep pools of small
/// buffers with known content and re-verify them, "churners" create and drop big ones (also
/// multiples of 2 MiB).  Every buffer is used by its own thread only, so any disturbance
/// comes from the mapping set-up / tear-down of *other* buffers.
/// args: threads rounds seed big(0|1) refuse(0|1).  Prints one JSON line.
fn child_churn(args: &[String]) -> i32 {
    use rustradio::circular_buffer::Buffer;
    use std::sync::Arc;
    let threads: usize = args.first().and_then(|s| s.parse().ok()).unwrap_or(4);
    let rounds: usize = args.get(1).and_then(|s| s.parse().ok()).unwrap_or(100);
    let seed: u64 = args.get(2).and_then(|s| s.parse().ok()).unwrap_or(1);
    let big = args.get(3).map(|s| s == "1").unwrap_or(false);
    // every third thread keeps asking for buffers that must be refused (error paths of the
    // two-step mapping run concurrently with everybody else's mappings)
    let refuse = args.get(4).map(|s| s == "1").unwrap_or(false);
    let base = (deleted_mappings(), open_fds());
    fn pat(tag: u64, i: usize) -> u8 {
        (tag.wrapping_mul(0x9E37_79B9).wrapping_add(i as u64 * 131) >> 3) as u8
    }
    /// fill the buffer so that its content straddles the wrap: returns false on any mismatch
    fn prime(b: &Arc<Buffer<u8>>, tag: u64) -> Result<(), String> {
        let cap = b.total_size();
        let lead = cap - cap.min(100);
        {
            let mut w = b.clone().write_buf().map_err(|e| format!("{e}"))?;
            if w.len() != cap {
                return Err(format!("fresh buffer offers {} of {cap}", w.len()));
            }
            w.slice()[..lead].fill(0);
            w.produce(lead, &[]);
        }
        {
            let (r, _) = b.clone().read_buf().map_err(|e| format!("{e}"))?;
            r.consume(lead);
        }
        let n = cap.min(200);
        {
            let mut w = b.clone().write_buf().map_err(|e| format!("{e}"))?;
            for i in 0..n {
                w.slice()[i] = pat(tag, i);
            }
            w.produce(n, &[]);
        }
        Ok(())
    }
    /// the primed content must still be there, contiguous across the wrap
    fn verify(b: &Arc<Buffer<u8>>, tag: u64) -> Result<(), String> {
        let cap = b.total_size();
        let n = cap.min(200);
        let (r, _) = b.clone().read_buf().map_err(|e| format!("{e}"))?;
        if r.len() != n {
            return Err(format!("{} samples readable, {n} were committed", r.len()));
        }
        for i in 0..n {
            if r.slice()[i] != pat(tag, i) {
                return Err(format!("byte {i} of the committed data reads {:#x}, written {:#x} ({}-byte buffer)", r.slice()[i], pat(tag, i), cap));
            }
        }
        Ok(())
    }
    /// consume up to the wrap, then the rest must be readable at the start of the first half
    fn verify_alias(b: &Arc<Buffer<u8>>, tag: u64) -> Result<(), String> {
        let cap = b.total_size();
        let n = cap.min(200);
        let first = cap.min(100);
        {
            let (r, _) = b.clone().read_buf().map_err(|e| format!("{e}"))?;
            if r.len() != n {
                return Err(format!("{} samples readable, {n} were committed", r.len()));
            }
            r.consume(first);
        }
        let (r, _) = b.clone().read_buf().map_err(|e| format!("{e}"))?;
        for i in 0..(n - first) {
            if r.slice()[i] != pat(tag, first + i) {
                return Err(format!("after the wrap, byte {i} reads {:#x}, written through the other half {:#x} ({}-byte buffer)", r.slice()[i], pat(tag, first + i), cap));
            }
        }
        Ok(())
    }
    let fails: Arc<std::sync::Mutex<Vec<String>>> = Arc::new(std::sync::Mutex::new(Vec::new()));
    let created = Arc::new(std::sync::atomic::AtomicU64::new(0));
    std::thread::scope(|sc| {
        for t in 0..threads.max(2) {
            let fails = fails.clone();
            let created = created.clone();
            sc.spawn(move || {
                let mut r = crate::gens::XRng::new(seed ^ (t as u64 * 7919));
                if refuse && t % 3 == 2 {
                    for round in 0..rounds * 4 {
                        if !fails.lock().unwrap().is_empty() {
                            break;
                        }
                        let size = 4096 * (1 + r.below(64) as usize) + [2048usize, 1, 100, 4095][r.below(4) as usize];
                        if Buffer::<u8>::new(size).is_ok() {
                            fails.lock().unwrap().push(format!("accepted-invalid: thread {t} round {round}: Buffer::new({size}) succeeded"));
                            break;
                        }
                    }
                    return;
                }
                let churner = t % 2 == 0;
                let mut pool: std::collections::VecDeque<(Arc<Buffer<u8>>, u64)> = std::collections::VecDeque::new();
                for round in 0..rounds {
                    if !fails.lock().unwrap().is_empty() {
                        break;
                    }
                    let size = if churner && big {
                        [2usize << 20, 4 << 20, 2 << 20, 6 << 20][r.below(4) as usize]
                    } else if churner {
                        4096 * (1 + r.below(64) as usize)
                    } else {
                        4096 * (1 + r.below(8) as usize)
                    };
                    let tag = (t as u64) << 32 | round as u64;
                    let b = match Buffer::<u8>::new(size) {
                        Ok(b) => Arc::new(b),
                        Err(e) => {
                            fails.lock().unwrap().push(format!("create-failed: Buffer::new({size}): {e}"));
                            break;
                        }
                    };
                    created.fetch_add(1, std::sync::atomic::Ordering::Relaxed);
                    if let Err(e) = prime(&b, tag).and_then(|_| verify(&b, tag)) {
                        fails.lock().unwrap().push(format!("data: thread {t} round {round}: {e}"));
                        break;
                    }
                    if churner {
                        if let Err(e) = verify_alias(&b, tag) {
                            fails.lock().unwrap().push(format!("alias: thread {t} round {round}: {e}"));
                            break;
                        }
                        drop(b);
                    } else {
                        pool.push_back((b, tag));
                        // re-verify a held buffer: nobody else touches it
                        let k = r.below(pool.len() as u64) as usize;
                        if let Err(e) = verify(&pool[k].0, pool[k].1) {
                            fails.lock().unwrap().push(format!("held-data: thread {t} round {round}, buffer held since round {}: {e}", pool[k].1 & 0xffff_ffff));
                            break;
                        }
                        if pool.len() > 8 {
                            let (b, tag) = pool.pop_front().unwrap();
                            if let Err(e) = verify(&b, tag).and_then(|_| verify_alias(&b, tag)) {
                                fails.lock().unwrap().push(format!("held-data: thread {t} round {round}: {e}"));
                                break;
                            }
                        }
                    }
                }
                while let Some((b, tag)) = pool.pop_front() {
                    if fails.lock().unwrap().is_empty() {
                        if let Err(e) = verify(&b, tag) {
                            fails.lock().unwrap().push(format!("held-data: thread {t} at the end: {e}"));
                        }
                    }
                }
            });
        }
    });
    let after = (deleted_mappings(), open_fds());
    let f = fails.lock().unwrap();
    println!(
        "{}",
        json!({"ok": f.is_empty() && after == base, "fails": *f, "base": [base.0, base.1], "after": [after.0, after.1], "created": created.load(std::sync::atomic::Ordering::Relaxed)})
    );
    0
}

/// Child: a file sink whose file may not grow beyond `limit` bytes (RLIMIT_FSIZE with SIGXFSZ
/// ignored: the kernel answers with short writes and then EFBIG).
/// args: path kind(u8|f32) limit_bytes n seed.  Prints one JSON line.
fn child_fsize(args: &[String]) -> i32 {
    use rustradio::block::Block;
    use rustradio::blocks::FileSink;
    let path = &args[0];
    let kind = args[1].as_str();
    let limit: u64 = args[2].parse().unwrap();
    let n: usize = args[3].parse().unwrap();
    let seed: u64 = args[4].parse().unwrap();
    rustradio::verif::set_stream_size(Some(1 << 20));
    // the limit is set after the stream exists: its backing file is a file too
    let set_limit = || unsafe {
        libc::signal(libc::SIGXFSZ, libc::SIG_IGN);
        let rl = libc::rlimit { rlim_cur: limit, rlim_max: limit };
        libc::setrlimit(libc::RLIMIT_FSIZE, &rl);
    };
    macro_rules! go {
        ($t:ty, $data:expr, $sz:expr) => {{
            let data: Vec<$t> = $data;
            let (w, rd) = rustradio::stream::new_stream::<$t>();
            set_limit();
            let mut sink = match FileSink::<$t>::new(rd, path, rustradio::file_sink::Mode::Create) {
                Ok(s) => s,
                Err(_) => return 3,
            };
            let cap = w.free();
            let m = data.len().min(cap);
            if m > 0 {
                let mut wb = w.write_buf().unwrap();
                wb.slice()[..m].copy_from_slice(&data[..m]);
                wb.produce(m, &[]);
            }
            let mut results = Vec::new();
            for _ in 0..3 {
                let r = sink.work();
                results.push(r.is_ok());
                if r.is_err() {
                    break;
                }
            }
            let consumed = m - (cap - w.free());
            let len = std::fs::metadata(path).map(|m| m.len()).unwrap_or(0);
            println!("{}", json!({"fed": m, "consumed": consumed, "consumed_bytes": consumed * $sz, "file_len": len, "work_ok": results, "limit": limit}));
        }};
    }
    match kind {
        "u8" => go!(u8, sink_stream_u8(n, seed), 1usize),
        _ => go!(f32, sink_stream_f32(n, seed), 4usize),
    }
    0
}

/// Child: no file descriptor is left for the backing file of a new stream.  The set-up must
/// fail (or, if it succeeds by other means, the buffer must be whole).
/// args: size_bytes.  Prints one JSON line.
fn child_nofile(args: &[String]) -> i32 {
    use rustradio::circular_buffer::Buffer;
    let size: usize = args[0].parse().unwrap();
    let base = (deleted_mappings(), open_fds());
    // a working buffer first (everything the harness needs is set up)
    let probe = Buffer::<u32>::new(4096).is_ok();
    // second argument "fsize:<bytes>": the backing file cannot be made as large as the buffer
    // (file size limit, SIGXFSZ ignored: sizing it fails with EFBIG); default: no descriptor
    let fsize: Option<u64> = args.get(1).and_then(|a| a.strip_prefix("fsize:")).and_then(|v| v.parse().ok());
    let res = if fsize.is_some() { libc::RLIMIT_FSIZE } else { libc::RLIMIT_NOFILE };
    let mut old = libc::rlimit { rlim_cur: 0, rlim_max: 0 };
    unsafe { libc::getrlimit(res, &mut old) };
    // nofile: all descriptors in use, the next open() fails with EMFILE
    let rl = libc::rlimit { rlim_cur: fsize.unwrap_or(0), rlim_max: old.rlim_max };
    unsafe {
        if fsize.is_some() {
            libc::signal(libc::SIGXFSZ, libc::SIG_IGN);
        }
        libc::setrlimit(res, &rl);
    }
    let r = Buffer::<u32>::new(size);
    unsafe { libc::setrlimit(res, &old) };
    let (ok, data_ok) = match r {
        Err(_) => (false, true),
        Ok(b) => {
            let b = std::sync::Arc::new(b);
            let want = size / 4;
            let mut good = b.total_size() == want && b.free() == want;
            // offset the positions so that the next window crosses the end of the mapping
            if good && want >= 8 {
                {
                    let w = b.clone().write_buf().unwrap();
                    w.produce(want - 3, &[]);
                }
                {
                    let (r, _) = b.clone().read_buf().unwrap();
                    r.consume(want - 3);
                }
                {
                    let mut w = b.clone().write_buf().unwrap();
                    good &= w.len() == want;
                    for (i, x) in w.slice().iter_mut().enumerate() {
                        *x = (i as u32).wrapping_mul(40503) ^ 0x77;
                    }
                    w.produce(want, &[]);
                }
                {
                    let (r, _) = b.clone().read_buf().unwrap();
                    r.consume(5);
                }
                let (r, _) = b.clone().read_buf().unwrap();
                good &= r.len() == want - 5 && r.slice().iter().enumerate().all(|(i, x)| *x == ((i + 5) as u32).wrapping_mul(40503) ^ 0x77);
            }
            (true, good)
        }
    };
    let after = (deleted_mappings(), open_fds());
    println!("{}", json!({"probe_ok": probe, "setup_ok": ok, "data_ok": data_ok, "base": [base.0, base.1], "after": [after.0, after.1]}));
    0
}

pub fn child_main(args: &[String]) -> i32 {
    let mode = args.first().map(|s| s.as_str()).unwrap_or("");
    match mode {
        "churn" => child_churn(&args[1..]),
        "fsize" => child_fsize(&args[1..]),
        "nofile" => child_nofile(&args[1..]),
        "rlimit" => {
            // args: headroom_kib stream_bytes rounds
            let headroom: u64 = args[1].parse().unwrap();
            let size: usize = args[2].parse().unwrap();
            let rounds: usize = args[3].parse().unwrap();
            let statm = std::fs::read_to_string("/proc/self/statm").unwrap();
            let vm_pages: u64 = statm.split_whitespace().next().unwrap().parse().unwrap();
            let limit = vm_pages * 4096 + headroom * 1024;
            // everything the harness itself needs is allocated before the limit is lowered
            let base_deleted = deleted_mappings();
            let mut held = Vec::with_capacity(rounds + 8);
            let mut old = libc::rlimit { rlim_cur: 0, rlim_max: 0 };
            unsafe { libc::getrlimit(libc::RLIMIT_AS, &mut old) };
            let rl = libc::rlimit { rlim_cur: limit, rlim_max: old.rlim_max };
            unsafe { libc::setrlimit(libc::RLIMIT_AS, &rl) };
            let mut errs = 0usize;
            let mut oks = 0usize;
            let mut growth_after_fail = 0isize;
            let mut first_fail_at = None;
            for _ in 0..rounds {
                match rustradio::circular_buffer::Buffer::<u32>::new(size) {
                    Ok(b) => {
                        oks += 1;
                        held.push(std::sync::Arc::new(b));
                    }
                    Err(_) => {
                        if first_fail_at.is_none() {
                            first_fail_at = Some(oks);
                        }
                        errs += 1;
                        // repeated failures (still under the limit) must not grow the mapping count
                        for _ in 0..20 {
                            let _ = rustradio::circular_buffer::Buffer::<u32>::new(size);
                        }
                        // back to the old soft limit before the harness allocates (reading /proc)
                        unsafe { libc::setrlimit(libc::RLIMIT_AS, &old) };
                        growth_after_fail += deleted_mappings() as isize - (base_deleted + 2 * held.len()) as isize;
                        break;
                    }
                }
            }
            unsafe { libc::setrlimit(libc::RLIMIT_AS, &old) };
            let held_n = held.len();
            let expected_maps = base_deleted + 2 * held_n;
            let maps_ok = deleted_mappings() == expected_maps;
            // every buffer that was handed out under memory pressure must be a whole one: the
            // advertised capacity, and a full window that reads back what was written (the
            // last ones created are the ones closest to the limit)
            let mut data_ok = true;
            for b in held.iter().rev().take(64) {
                let want = size / 4;
                if b.total_size() != want || b.free() != want {
                    data_ok = false;
                    break;
                }
                {
                    let mut w = match b.clone().write_buf() {
                        Ok(w) => w,
                        Err(_) => {
                            data_ok = false;
                            break;
                        }
                    };
                    if w.len() != want {
                        data_ok = false;
                        break;
                    }
                    for (i, x) in w.slice().iter_mut().enumerate() {
                        *x = (i as u32).wrapping_mul(2654435761) ^ 0x5a5a;
                    }
                    w.produce(want, &[]);
                }
                match b.clone().read_buf() {
                    Ok((r, _)) => {
                        if r.len() != want || r.slice().iter().enumerate().any(|(i, x)| *x != (i as u32).wrapping_mul(2654435761) ^ 0x5a5a) {
                            data_ok = false;
                        }
                        let n = r.len();
                        r.consume(n);
                    }
                    Err(_) => data_ok = false,
                }
                if !data_ok {
                    break;
                }
            }
            drop(held);
            let after_drop = deleted_mappings();
            // a fresh stream still works once memory is back
            rustradio::verif::set_stream_size(Some(4096));
            let (w, r) = rustradio::stream::new_stream::<u32>();
            let hist_ok = small_history(&w, &r);
            println!(
                "{}",
                json!({"mode":"rlimit","oks":oks,"errs":errs,"first_fail_at":first_fail_at,"growth_after_fail":growth_after_fail,
                       "maps_ok":maps_ok,"data_ok":data_ok,"after_drop":after_drop,"base":base_deleted,"hist_ok":hist_ok})
            );
            0
        }
        "mapcount" => {
            // args: parity(0/1) ; creates two-page buffers until failure
            let parity: usize = args[1].parse().unwrap();
            let mut odd = Vec::new();
            for _ in 0..parity {
                // one extra anonymous mapping flips the parity of the map count
                let p = unsafe {
                    libc::mmap(std::ptr::null_mut(), 4096, libc::PROT_READ, libc::MAP_PRIVATE | libc::MAP_ANONYMOUS, -1, 0)
                };
                odd.push(p);
                // separate it from neighbours so it is not merged
                unsafe { libc::mprotect(p, 4096, libc::PROT_NONE) };
            }
            let base_deleted = deleted_mappings();
            let mut held = Vec::new();
            let mut first_fail_at = None;
            let mut growth_after_fail = 0isize;
            for i in 0..40_000usize {
                match rustradio::circular_buffer::Buffer::<u32>::new(4096) {
                    Ok(b) => held.push(b),
                    Err(_) => {
                        first_fail_at = Some(i);
                        let before = total_mappings();
                        for _ in 0..20 {
                            let _ = rustradio::circular_buffer::Buffer::<u32>::new(4096);
                        }
                        growth_after_fail = total_mappings() as isize - before as isize;
                        break;
                    }
                }
            }
            let held_n = held.len();
            let total_at_fail = total_mappings();
            // surviving streams still behave: sample a few
            let mut surv_ok = true;
            for b in held.iter().step_by((held_n / 7).max(1)) {
                let _ = b.free();
                surv_ok &= b.total_size() == 1024;
            }
            drop(held);
            let after_drop = deleted_mappings();
            rustradio::verif::set_stream_size(Some(4096));
            let (w, r) = rustradio::stream::new_stream::<u32>();
            let hist_ok = small_history(&w, &r);
            println!(
                "{}",
                json!({"mode":"mapcount","held":held_n,"first_fail_at":first_fail_at,"growth_after_fail":growth_after_fail,
                       "total_at_fail":total_at_fail,"after_drop":after_drop,"base":base_deleted,"surv_ok":surv_ok,"hist_ok":hist_ok})
            );
            0
        }
        "sink" => child_sink(&args[1..]),
        _ => {
            eprintln!("unknown child mode {mode}");
            2
        }
    }
}

pub fn parse_child(out: &str) -> Option<Value> {
    out.lines().rev().find_map(|l| serde_json::from_str::<Value>(l).ok())
}

// ---------------------------------------------------------------------------------------
// Child: stream a seeded sequence through a file sink, acknowledging after every work().

pub fn sink_stream_u8(n: usize, seed: u64) -> Vec<u8> {
    let mut r = crate::gens::XRng::new(seed ^ 0x51c);
    (0..n).map(|_| r.next() as u8).collect()
}
pub fn sink_stream_f32(n: usize, seed: u64) -> Vec<f32> {
    let mut r = crate::gens::XRng::new(seed ^ 0xf51c);
    (0..n).map(|_| f32::from_bits(r.next() as u32)).collect()
}
pub fn sink_stream_str(n: usize, seed: u64) -> Vec<String> {
    let mut r = crate::gens::XRng::new(seed ^ 0x5751c);
    (0..n)
        .map(|i| {
            let l = r.below(40) as usize;
            let mut s = format!("{i}:");
            for _ in 0..l {
                s.push((b'a' + r.below(26) as u8) as char);
            }
            s
        })
        .collect()
}

pub fn mode_of(m: &str) -> rustradio::file_sink::Mode {
    match m {
        "c" => rustradio::file_sink::Mode::Create,
        "o" => rustradio::file_sink::Mode::Overwrite,
        _ => rustradio::file_sink::Mode::Append,
    }
}

fn ack(n: usize) {
    let s = format!("{n}\n");
    // raw write: no userspace buffering between the sink's work() and the acknowledgement
    unsafe { libc::write(1, s.as_ptr() as *const libc::c_void, s.len()) };
}

/// The sink was constructed (the file is open): from here on the kill oracle applies.
fn ready() {
    unsafe { libc::write(1, b"R\n".as_ptr() as *const libc::c_void, 2) };
}

/// args: path mode(c|o|a) kind(u8|f32|str) total seed chunk_max
fn child_sink(args: &[String]) -> i32 {
    use rustradio::block::Block;
    use rustradio::blocks::{FileSink, NoCopyFileSink};
    let path = &args[0];
    let mode = mode_of(&args[1]);
    let kind = args[2].as_str();
    let total: usize = args[3].parse().unwrap();
    let seed: u64 = args[4].parse().unwrap();
    let chunk_max: u64 = args[5].parse::<u64>().unwrap().max(1);
    let mut r = crate::gens::XRng::new(seed ^ 0xc4);
    rustradio::verif::set_stream_size(Some(8192));
    macro_rules! run_samples {
        ($t:ty, $data:expr) => {{
            let data: Vec<$t> = $data;
            let (w, rd) = rustradio::stream::new_stream::<$t>();
            let mut sink = match FileSink::<$t>::new(rd, path, mode) {
                Ok(s) => s,
                Err(_) => return 3,
            };
            let cap = w.free();
            let mut pos = 0usize;
            ready();
            loop {
                let n = (1 + r.below(chunk_max) as usize).min(data.len() - pos).min(w.free());
                if n > 0 {
                    let mut wb = w.write_buf().unwrap();
                    wb.slice()[..n].copy_from_slice(&data[pos..pos + n]);
                    wb.produce(n, &[]);
                    pos += n;
                }
                if sink.work().is_err() {
                    return 4;
                }
                let consumed = pos - (cap - w.free());
                ack(consumed);
                if pos == data.len() && consumed == pos {
                    break;
                }
            }
        }};
    }
    match kind {
        "u8" => run_samples!(u8, sink_stream_u8(total, seed)),
        "f32" => run_samples!(f32, sink_stream_f32(total, seed)),
        _ => {
            let data = sink_stream_str(total, seed);
            let (w, rd) = rustradio::stream::new_nocopy_stream::<String>();
            let mut sink = match NoCopyFileSink::<String>::new(rd, path, mode) {
                Ok(s) => s,
                Err(_) => return 3,
            };
            let mut pos = 0usize;
            ready();
            loop {
                let n = (1 + r.below(chunk_max.min(5)) as usize).min(data.len() - pos);
                for i in 0..n {
                    w.push(data[pos + i].clone(), &[]);
                }
                pos += n;
                // one packet per work() call
                for _ in 0..n.max(1) {
                    if sink.work().is_err() {
                        return 4;
                    }
                    ack(pos - w.verif_len());
                }
                if pos == data.len() && w.verif_len() == 0 {
                    break;
                }
            }
        }
    }
    // acknowledged everything; linger so that the parent decides when the process dies
    ack(usize::MAX);
    std::thread::sleep(std::time::Duration::from_secs(20));
    0
}
