use rrverif::{engine, osfault, props};

use engine::{RunOpts, Tier, replay_property, run_property};

fn usage() -> ! {
    eprintln!("usage: rrverif check <ID> <quick|thorough> | rrverif check <ID> --replay <file>");
    std::process::exit(2);
}

macro_rules! dispatch {
    ($id:expr, $f:ident, $($arg:expr),*) => {
        match $id {
            "C01" => $f(&props::c01::C01, $($arg),*),
            "C02" => $f(&props::c02::C02, $($arg),*),
            "C03" => $f(&props::c03::C03, $($arg),*),
            "C04" => $f(&props::c04::C04, $($arg),*),
            "C05" => $f(&props::c05::C05, $($arg),*),
            "C06" => $f(&props::c06::C06, $($arg),*),
            "C07" => $f(&props::c07::C07, $($arg),*),
            "C08" => $f(&props::c08::C08, $($arg),*),
            "C09" => $f(&props::c09::C09, $($arg),*),
            "C10" => $f(&props::c10::C10, $($arg),*),
            "C11" => $f(&props::c11::C11, $($arg),*),
            "C12" => $f(&props::c12::C12, $($arg),*),
            "C13" => $f(&props::c13::C13, $($arg),*),
            "C14" => $f(&props::c14::C14, $($arg),*),
            "C15" => $f(&props::c15::C15, $($arg),*),
            "C16" => $f(&props::c16::C16, $($arg),*),
            "C17" => $f(&props::c17::C17, $($arg),*),
            "C18" => $f(&props::c18::C18, $($arg),*),
            "C19" => $f(&props::c19::C19, $($arg),*),
            "C20" => $f(&props::c20::C20, $($arg),*),
            _ => { eprintln!("unknown property {}", $id); 2 }
        }
    };
}

fn main() {
    let args: Vec<String> = std::env::args().collect();
    if args.len() >= 3 && args[1] == "child" {
        std::process::exit(osfault::child_main(&args[2..]));
    }
    if args.len() >= 3 && args[1] == "gen-corpus" {
        // writes the seed inputs of every fuzz target to <dir>/<target>/
        for t in rrverif::fuzz_entry::TARGETS {
            let d = std::path::Path::new(&args[2]).join(t);
            std::fs::create_dir_all(&d).expect("corpus dir");
            let mut seeds = props::c15::seed_inputs(t);
            seeds.push(vec![0u8; 8]);
            seeds.push((0..=255u8).collect());
            for (i, s) in seeds.iter().enumerate() {
                std::fs::write(d.join(format!("seed{i}")), s).expect("write seed");
            }
        }
        return;
    }
    if args.len() < 4 || args[1] != "check" {
        usage();
    }
    engine::install_panic_hook();
    let id = args[2].as_str();
    if args[3] == "--replay" {
        if args.len() < 5 {
            usage();
        }
        let file = args[4].as_str();
        let code = dispatch!(id, replay_property, file);
        std::process::exit(code);
    }
    let tier = match args[3].as_str() {
        "quick" => Tier::Quick,
        "thorough" => Tier::Thorough,
        _ => usage(),
    };
    let seed = std::env::var("VERIF_SEED")
        .ok()
        .and_then(|s| s.parse::<u64>().ok().or_else(|| s.parse::<i64>().ok().map(|x| x as u64)))
        .unwrap_or(1);
    let jobs = std::env::var("VERIF_JOBS")
        .ok()
        .and_then(|s| s.parse::<usize>().ok())
        .unwrap_or(16)
        .clamp(1, 64);
    let opts = RunOpts { tier, seed, jobs };
    let code = dispatch!(id, run_property, &opts);
    std::process::exit(code);
}
