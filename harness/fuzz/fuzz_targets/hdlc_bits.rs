#![no_main]
use libfuzzer_sys::fuzz_target;

fuzz_target!(|data: &[u8]| {
    static INIT: std::sync::Once = std::sync::Once::new();
    INIT.call_once(rrverif::engine::install_panic_hook);
    rrverif::fuzz_entry::fuzz_one("hdlc_bits", data);
});
