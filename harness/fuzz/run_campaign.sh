#!/bin/sh
# usage: run_campaign.sh <target> <runs> <seed>
# Builds the libFuzzer+ASan target (cargo-fuzz, nightly, offline) and runs a bounded
# campaign on a fresh copy of the seed corpus.  Exit 0: no finding; 2: infrastructure;
# other: libFuzzer reported a crash (the FINDING line names the signature).
T="$1"; RUNS="${2:-200000}"; SEED="${3:-1}"
cd /verif/harness || exit 2
export CARGO_NET_OFFLINE=true
mkdir -p fuzz/artifacts/"$T" fuzz/target
if ! cargo +nightly fuzz build "$T" >fuzz/target/build-"$T".log 2>&1; then
    echo "fuzz build failed (see /verif/harness/fuzz/target/build-$T.log)" >&2
    tail -5 fuzz/target/build-"$T".log >&2
    exit 2
fi
BIN=/verif/harness/fuzz/target/x86_64-unknown-linux-gnu/release/"$T"
[ -x "$BIN" ] || exit 2
CORP=$(mktemp -d /dev/shm/rrfuzz-"$T"-XXXXXX) || exit 2
if [ -d /verif/corpus/"$T" ]; then cp /verif/corpus/"$T"/* "$CORP"/ 2>/dev/null; fi
OUT=$(mktemp /dev/shm/rrfuzz-out-XXXXXX) || exit 2
"$BIN" "$CORP" -runs="$RUNS" -seed="$SEED" -len_control=0 -max_len=4096 -timeout=20 \
    -print_final_stats=1 -artifact_prefix=/verif/harness/fuzz/artifacts/"$T"/ >"$OUT" 2>&1
RC=$?
grep -E "^FINDING|Test unit written|^stat::|ERROR: " "$OUT" | tail -20
tail -5 "$OUT"
rm -rf "$CORP" "$OUT"
exit $RC
