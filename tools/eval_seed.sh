#!/bin/sh
# usage: tools/eval_seed.sh <seed-name> <worktree-dir> <check-id> [more check ids...]
# 1. confirms the seeded change in its scratch worktree (baseline tests pass with it, the
#    demonstration fails with it and passes without it);
# 2. copies patch/demo/notes to /verif/seeded/<seed-name>/;
# 3. applies the patch to /repo, runs the given checks (quick), restores /repo.
NAME="$1"; WT="$2"; shift 2
OUT=/verif/seeded/$NAME
mkdir -p "$OUT"
cp "$WT"/_seed/patch.diff "$WT"/_seed/notes.md "$OUT"/ 2>/dev/null
cp "$WT"/_seed/seeded_demo.rs "$OUT"/ 2>/dev/null || cp "$WT"/tests/seeded_demo.rs "$OUT"/
LOG=$OUT/eval.log
: > "$LOG"
cd "$WT" || exit 2
echo "== with change: baseline tests" >>"$LOG"
cargo test --workspace --offline --lib 2>&1 | grep -E "^test result|^test .* FAILED" >>"$LOG"
cargo test --workspace --offline --doc 2>&1 | grep -E "^test result" >>"$LOG"
echo "== with change: demo" >>"$LOG"
cargo test --offline --test seeded_demo 2>&1 | grep -E "^test result|^test .* (ok|FAILED)" >>"$LOG"
git diff -- src rustradio_macros > /tmp/seed/.cur.diff; git apply -R /tmp/seed/.cur.diff
echo "== without change: demo" >>"$LOG"
cargo test --offline --test seeded_demo 2>&1 | grep -E "^test result|^test .* (ok|FAILED)" >>"$LOG"
git apply /tmp/seed/.cur.diff
cd /repo || exit 2
if ! git apply --check "$OUT"/patch.diff 2>>"$LOG"; then echo "PATCH DOES NOT APPLY" >>"$LOG"; cat "$LOG"; exit 2; fi
git apply "$OUT"/patch.diff
for C in "$@"; do
    echo "== /repo with change: ./check $C quick" >>"$LOG"
    (cd /verif && timeout 1500 ./check "$C" quick 2>&1 | grep -E "VIOLATION|sig=|quick:|KNOWN|BUILD" | cut -c1-400) >>"$LOG"
    echo "exit=$?" >>"$LOG"
done
git -C /repo checkout -- .
git -C /repo status --short >>"$LOG"
cat "$LOG"
