#!/usr/bin/env python3
"""Generates /verif/MANIFEST.json from the table below (kept in one place so that the
manifest always validates).  Run: python3 tools/gen_manifest.py"""
import json, subprocess

HOOK_COMMITS = subprocess.run(
    ["git", "-C", "/repo", "log", "--format=%h %s", "--grep=^verif hooks"],
    capture_output=True, text=True).stdout.strip().splitlines()

# id -> (engine, level category, technique, level text, level note, design ref)
CHECKS = {
 "C01": ("E1 ring model", "exploration",
   "model-based property testing (proptest op histories vs VecDeque reference model, shrinking)",
   "Generated op histories on Buffer<T>/new_stream<T>() for 9 element kinds and 1-8 page buffers are compared with a reference queue after every operation; a set-up table (element kinds x valid/invalid sizes x both constructors) is enumerated completely. Finds any mis-delivery reachable within ~200 ops; no absence claim.",
   "single-threaded histories only (C03 covers interleavings); samples compared as bit patterns; tags obey pos<n", "DESIGN.md §5 C01"),
 "C02": ("E1 ring model", "exploration",
   "model-based property testing (tag-dense op histories vs reference model, shrinking)",
   "Same interpreter as C01 with 0-5 tags per commit placed on first/last/wrap-adjacent samples; the full tag list of every read window is compared with the model after every op.",
   "tags obey the documented contract pos<n; Float tag values finite", "DESIGN.md §5 C02"),
}

NOT_YET = {}

def main():
    props = [json.loads(l) for l in open("/verif/properties.jsonl")]
    checks = []
    na = []
    for p in props:
        pid = p["id"]
        if pid in CHECKS:
            eng, cat, tech, text, note, ref = CHECKS[pid]
            checks.append({
                "property_id": pid,
                "quick_cmd": f"./check {pid} quick",
                "thorough_cmd": f"./check {pid} thorough",
                "evidence_file": f"/verif/evidence/{pid}.json",
                "replay_cmd_template": f"./check {pid} --replay {{path}}",
                "engine": eng,
                "level_claimed": {"category": cat, "text": text, "design_ref": ref},
                "level_note": note,
                "technique": tech,
            })
        else:
            na.append({"property_id": pid,
                       "reason": NOT_YET.get(pid, "check under construction in this round (see DESIGN.md §5 for the planned generator/oracle); not claimed until it runs green on the unchanged tree")})
    m = {
        "version": 1,
        "setup_cmd": "cd /verif/harness && CARGO_NET_OFFLINE=true cargo build --release --offline",
        "hooks": {
            "guard": "cargo feature `verif` of rustradio",
            "enable": "harness/Cargo.toml depends on rustradio {path=/repo, features=[verif]}; every ./check rebuilds from /repo's working tree",
            "baseline_off_cmd": "cd /repo && cargo test --workspace --no-fail-fast --offline",
            "source_commits": [c.split()[0] for c in HOOK_COMMITS],
            "add_only": True,
        },
        "engines": [
            {"name": "E1 ring model", "path": "harness/src/ring.rs", "serves_properties": ["C01", "C02", "C18"],
             "kind_free_text": "proptest op-history generator + reference queue/tag model + interpreter"},
        ],
        "checks": checks,
        "not_applicable": na,
        "notes": "All checks: ./check <ID> <tier>; exit 0 held / 1 VIOLATION / 2 infrastructure. VERIF_SEED seeds every generator; VERIF_JOBS (default 16) worker threads. known_findings.txt lists open findings and repaired defects; regress/<ID>/*.json are shrunk cases replayed first on every run.",
    }
    json.dump(m, open("/verif/MANIFEST.json", "w"), indent=1)
    print("checks:", [c["property_id"] for c in checks], "na:", len(na))

main()
