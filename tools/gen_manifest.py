#!/usr/bin/env python3
"""Generates /verif/MANIFEST.json from the table below (kept in one place so that the
manifest always validates).  Run: python3 tools/gen_manifest.py"""
import json, subprocess

HOOK_COMMITS = subprocess.run(
    ["git", "-C", "/repo", "log", "--format=%h %s", "--grep=^verif hooks"],
    capture_output=True, text=True).stdout.strip().splitlines()

# id -> (engine, level category, technique, level text, level note, design ref)
CHECKS = {
 "C01": ("E1 ring model", "exploration",
   "model-based property testing (proptest op histories vs VecDeque reference model, shrinking)",
   "Generated op histories on Buffer<T>/new_stream<T>() for 9 element kinds and 1-8 page buffers are compared with a reference queue after every operation; a set-up table (element kinds x valid/invalid sizes x both constructors) is enumerated completely. Finds any mis-delivery reachable within ~200 ops; no absence claim.",
   "single-threaded histories only (C03 covers interleavings); samples compared as bit patterns; tags obey pos<n", "DESIGN.md §5 C01"),
 "C02": ("E1 ring model", "exploration",
   "model-based property testing (tag-dense op histories vs reference model, shrinking)",
   "Same interpreter as C01 with 0-5 tags per commit placed on first/last/wrap-adjacent samples; the full tag list of every read window is compared with the model after every op.",
   "tags obey the documented contract pos<n; Float tag values finite", "DESIGN.md §5 C02"),

 "C08": ("E2 drip-feed driver", "exploration",
   "metamorphic property testing (drip-fed run vs one-shot twin, proptest schedules, shrinking)",
   "Every catalogue block (47 specs over the 26 anchored files) is driven with generated feed/free/work schedules on 1-4 page streams, including stingy drain phases that keep the output nearly full, and its accumulated output is required to be bit-identical to a one-shot twin on 4 MB streams; any panic in work() is a violation.",
   "capacity >= 2x the block's contiguous unit; bit-stream blocks get {0,1}; integer blocks get non-overflowing values", "DESIGN.md §5 C08"),
 "C09": ("E2 drip-feed driver", "exploration",
   "property testing with a per-call verdict oracle (handle counts, wait probing, spin detection, retirement)",
   "On every work() call of generated drip schedules (all catalogue blocks plus sources/sinks): no stream refusal, exactly two handles per open stream afterwards, no idle wait on an already satisfied stream, providing exactly what was asked leads to progress, no 6x idle Again, retirement after inputs end, no output after a retirable verdict (a wait on an ended, insufficient input, or a wait verdict after which eof() answers true), and finite sources (vector, file incl. files ending inside a sample, SigMF) with drained output report EOF.",
   "activity = change of buffered counts on harness-owned ends; requests above capacity not probed; WaitForFunc not executed", "DESIGN.md §5 C09"),
 "C12": ("E2 drip-feed driver", "exploration",
   "property testing with index-valued tags (expected tag sequence per block rule vs observed, under drip schedules)",
   "Harness tags whose value is their absolute index are attached every k-th input sample; the sequence of tags on each output must equal the expected one (same index / +delay / -skip / div decimation; first input only), so loss, duplication, misplacement and reordering are all visible; block-added tags are compared with the reference models.",
   "filters with group delay are held to the index rule their code documents; at most ~600 tags per port", "DESIGN.md §5 C12"),

 "C10": ("E2 drip-feed driver + E3 reference models", "exploration",
   "differential property testing against independent reference models (exact values and counts, chunked delivery)",
   "The exactly-specified blocks (27 catalogue kinds) are run under generated drip schedules on generated inputs (all byte values, float specials, boundary parameters, lengths beyond capacity) and their complete output is compared with reference implementations written from the documentation; FftStream against a direct DFT within a stated norm bound.",
   "StreamToPdu only for tail=0 and well-formed tag pairs; ToText without tags; NaN payloads canonicalised", "DESIGN.md §5 C10"),
 "C16": ("E2 drip-feed driver", "exploration",
   "model-based property testing (sources under consumption schedules vs data x repeat; Repeat API call sequences vs a 3-line model)",
   "VectorSource, FileSource<u8/f32> and SigMFSource (recording pair and tar archive) are drained through 1-4 page streams under generated consumption schedules for repeat in {0,1,2,3,infinite} and data of 0..14k samples; output, EOF timing and VectorSource marker tags are compared with the model; Repeat::{again,done,count} sequences are model-checked.",
   "files may end inside a sample (the trailing bytes are dropped); for an infinite repeat of empty data only 'every call returns' is asserted (10 s watchdog); no work() after EOF", "DESIGN.md §5 C16"),
 "C19": ("E2 drip-feed driver", "exploration",
   "property testing of macro-generated code with a per-call step-count oracle; exhaustive enumeration of eof() input states",
   "Ten harness-defined blocks built with #[derive(Block)] (sync 1-2 inputs x 1-3 outputs, sync_tag, default/into fields, generated new() over copy and non-copy outputs) are driven with unequal inputs and unequal output space; every call must move exactly min(shortest input, smallest output space) samples on every stream and name an empty/full stream otherwise; values identify each output port; eof() is enumerated over all 4^n input states.",
   "3-input sync blocks cannot be compiled with the macro (recorded, not a runtime violation)", "DESIGN.md §5 C19"),

 "C13": ("E2 drip-feed driver + E3 reference models", "exploration",
   "round-trip and differential property testing (independent HDLC framer; checksum-on output vs CRC-filtered checksum-off output; exhaustive single-bit flips)",
   "Generated transmissions built by an independent framer (bitwise CRC-16/X.25, stuffing, shared/separate flags, flag-free noise preamble) must be deframed to exactly the in-bounds payloads under any drip schedule; for arbitrary bit streams (flips, noise) the frames delivered with checksum on must be exactly the CRC-verified subset of those delivered with checksum off, and with fix-bits each delivery must be a verified frame or a single-bit repair; every single-flip position of three base transmissions is enumerated.",
   "max_size inclusive; zero-length deliveries between adjacent flags ignored; no subset-of-payload claim for corrupted input", "DESIGN.md §5 C13"),

 "C18": ("E1 ring model + E6 OS fault harness", "exploration",
   "stateful property testing against /proc observations; fault injection in child processes (RLIMIT_AS, map-count exhaustion, descriptor exhaustion)",
   "Generated create/use/drop histories of up to 200 buffers over 1-8 threads, and concurrent churn in a child process (holders re-verifying pools of small buffers while churners create and drop buffers of up to 6 MiB; a child crash is a violation), must return the count of deleted-file mappings and of descriptors to the baseline; the mapping layout and byte-for-byte aliasing of the halves is checked for every offset; the set-up table (element kinds x valid/invalid/huge sizes up to 2^63-4096, where the kernel may refuse at ftruncate or mmap) is enumerated and extended by generated sizes and by elements of 1-6 pages; mapping failures injected in child processes must surface as Err without leaks.",
   "only stream-attributable /proc entries are counted; single-threaded check; injected faults are ENOMEM from RLIMIT_AS and vm.max_map_count, and EMFILE from RLIMIT_NOFILE", "DESIGN.md §5 C18"),

 "C17": ("E6 OS fault harness", "fault_enumeration",
   "model-based testing of open modes (enumerated) + crash-point enumeration (file inspected after every work() return, generated batch sizes / sample types / stream sizes) + crash-point fault injection (SIGKILL of a child process at generated points, prefix/acknowledgement oracle; short writes forced by RLIMIT_FSIZE in a child)",
   "All 54 combinations of mode x initial file state x sink kind are enumerated against a model of the documented modes; a child process streams seeded data through the sink and acknowledges consumed counts after every work(); it is SIGKILLed after a generated number of acknowledgements plus a generated spin, and the file must be a prefix of the serialised stream at least as long as what was acknowledged; in-process, the file is read through a second descriptor after every work() return (what a kill at that instant leaves) for FileSink<u8|f32|Complex|u32> with batches of 1-200 000 samples on 8 KiB-4 MB streams; crash points inside a call: FIFO destination drained in pieces (consumed <= read + pipe capacity at every observation) and /dev/full (a failed write consumes nothing); Append with a second appender on the same file.",
   "process death, not power loss; root user (structural instead of permission-based failures); kill instants sampled, oracle valid for any instant", "DESIGN.md §5 C17"),

 "C03": ("E4 schedule explorer", "exploration",
   "schedule-exploring property testing (generated scenario + generated scheduler decision stream on the shuttle runtime via the verif sync shim; history invariant; shrinking over schedule and scenario) + real-thread stress",
   "A harness producer and consumer share a 1-2 page stream through the public API while every lock/unlock/timed-wait/notify/drop is a scheduling point decided by generated bytes; the consumer must see exactly the committed sequence and, over every consumed stretch, exactly the producer's tags, and every window acquisition is checked for disjointness from the other side's live windows in ring coordinates; a real two-thread run moves 4e5 (thorough 2e7) samples through a 1-page stream.",
   "sequential consistency at critical-section granularity; weak memory only sampled by the real-thread run on x86; half of the executions use notification-faithful timed waits (a timeout fires only when every runnable task sleeps in a wait), where a wait that is satisfied but was never notified is a lost wake-up", "DESIGN.md §5 C03"),
 "C04": ("E4 schedule explorer", "exploration",
   "schedule-exploring property testing of the wait/eof verdicts (generated scenario + decision stream; verdict soundness and bounded-arrival oracle)",
   "Reader-waits, writer-waits and packet-stream scenarios with a peer that commits and leaves are executed under generated schedules in which wait timeouts fire after 0-3 yields; a 'never'/eof verdict must imply peer gone and insufficient data (checked right after, which is valid because a gone peer cannot add data), all committed data must be read back, and a call that starts after the facts are settled must deliver the verdict.",
   "sequential consistency; timed waits modelled as bounded yields", "DESIGN.md §5 C04"),

 "C05": ("E4 schedule explorer + E5 graph generator", "exploration",
   "differential + schedule-exploring property testing (generated graph x generated scheduler decisions on the shuttle runtime vs sequential reference executor) + real-thread runs",
   "Generated graphs (chains, balanced diamonds, merges, rate changers, packet stage) run unmodified under MTGraph with its block threads as coroutines whose every lock/wait/spawn/exit/drop is scheduled by generated bytes (wait timeouts firing at generated moments); run() must return Ok with every sink equal to the sequential reference execution on 4 MB streams; deadlock or fair-schedule non-termination is a violation; a second family of tiny end-of-stream graphs (a harness source delivering 1-4 pieces on its own clock, lengths at stream capacity +-2) gets most of the 20 000 quick executions, 1 500 (thorough 60 000) more run under shuttle's PCT scheduler, and 16 (thorough 96) graphs also run on real threads.",
   "balanced diamonds only; sequential consistency; bounded liveness", "DESIGN.md §5 C05"),
 "C06": ("E5 graph generator + reference executor", "exploration",
   "differential property testing (Graph::run on small streams and generated add orders vs sequential reference executor); add-order permutations enumerated for small graphs",
   "Generated graphs with source lengths around and beyond capacity, 1-4 page streams and generated (for four small chains: all) add orders are run by Graph::run(); on Ok every sink must equal the reference result, so a return with data in flight shows as a strict prefix.",
   "balanced diamonds only; blocks chunking-invariant (C08)", "DESIGN.md §5 C06"),
 "C07": ("E4 schedule explorer + E5 graph generator", "exploration",
   "fault-injecting, schedule-exploring property testing (cancellation at generated scheduling points; failing wrapper block at generated position/call; both runners)",
   "Both runners execute generated graphs on the shuttle runtime while a canceller task cancels after a generated number of scheduling points, or a wrapper block fails on its k-th call, several failing blocks (up to every block), or cancel and fail at once (the failing call passes scheduling points while the canceller runs); cancel => run() returns Ok with <= 1 further work() call per block and all MT blocks dropped; fail => run() returns an Err carrying the injected marker; panics, Ok, other errors and non-return are violations. In 15% of the cancel plans cancel() has returned before run() is entered. MTGraph plans may contain a block answering Pending for 1-29 calls; no single sleep a runner thread asks for (reported by the shim, no wall clock) may exceed 10 s, since the token is not looked at during a sleep.",
   "bounded liveness; if the failing block never reaches call k nothing is injected", "DESIGN.md §5 C07"),

 "C11": ("E2 drip-feed driver + E3 reference models", "exploration",
   "differential property testing against f64 reference computations with stated norm-based tolerances; cross-implementation identity FIR == FFT; AVX build variant in the thorough tier",
   "FirFilter, FftFilter, FftFilterFloat, Hilbert, SinglePoleIirFilter, QuadratureDemod and FastFM run under drip schedules and Fir::filter/filter_n/filter_float, IirFilter and the low_pass designers are called directly; every output value and every output count is compared with an f64 evaluation of the defining formula within a tolerance stated up front (64 eps sum|t| max|x| direct, 16 eps log2(N) sum|t| max|x| FFT); the thorough tier repeats the run with a +avx,+sse3 build so the AVX kernel is the one measured.",
   "finite bounded inputs; fftw/fast-math/portable-simd feature builds not exercised; known finding: Blackman windows give asymmetric low_pass taps", "DESIGN.md §5 C11"),

 "C14": ("E2 drip-feed driver + E3 reference models + E6", "exploration",
   "round-trip / differential property testing of byte formats (independent LE/BE readers; containers built with generated member order; FIFO and loopback-TCP read segmentation with generated chunk sizes)",
   "Codecs on raw bit patterns; FileSink->FileSource for five sample types under drip schedules; SigMF recording pairs and tar archives with members in generated order plus unrelated and malformed variants; AuEncode->AuDecode and the repository's .au recording; FileSource on a FIFO and TcpSource on loopback with the byte stream cut at generated points incl. 1-byte reads and splits inside a sample; all compared with independent readers of the same bytes.",
   "FIFO/TCP reads are paced so that blocking reads always find data (one TCP case in four with a lagging reader of the source's output); unrelated archive members include directories, links, fifos and pax global headers; AU header layout = the encoder's", "DESIGN.md §5 C14"),

 "C15": ("E7 fuzz entries (+ E2 drip driver)", "exploration",
   "fuzzing with an in-target oracle: proptest-generated and seed-mutated byte inputs per target plus enumerated degenerate sets (quick); coverage-guided libFuzzer + ASan campaigns on the same entry functions (thorough)",
   "Eleven byte-level targets decode the input into (parameters, content, drip schedule), build fresh blocks and drive them to quiescence; any unwind out of work()/constructor/parser, an idle spin or a missed step bound is a violation. All bursts up to length 6 (8) over {-1,0,1,inf} for Wpcr/Midpointer and 2322 AU header field mutations are enumerated. The thorough tier builds /verif/harness/fuzz with cargo-fuzz (nightly, ASan) and runs 30k executions per target from the seed corpus in /verif/corpus.",
   "bit-stream consumers get {0,1}; constructor parameter assertions are configuration refusals", "DESIGN.md §5 C15"),

 "C20": ("E3 reference models (modulators) + both runners", "exploration",
   "round-trip property testing through the whole receive chain (independent HDLC framer + AFSK / G3RUH-FSK modulators -> library receive chains on Graph and MTGraph -> delivered packets == transmitted payloads)",
   "Generated transmissions (1-8 frames of 10-300 bytes, random and stuffing-heavy, generated phase / symbol timing / amplitude, three resp. two sample rates) are modulated by independent Bell-202 AFSK and G3RUH 2-FSK modulators and fed to the receive chains assembled from library blocks with the examples' parameters, on both runners and two stream sizes, followed by trailing flags or by exact digital silence right after the closing flag and >= 1 idle flag; the delivered packets must equal the transmitted payloads exactly, once, in order, and agree between runners.",
   "9600 chain uses the ZeroCrossing block; the last frame is followed by 40/300 trailing flags or by >= 1 idle flag and 16 000 / 64 000 samples of silence (no end-of-input flush in the chains); noiseless signals; one case in four ends in a PduWriter whose files (named by the microsecond of writing) are the delivered frames", "DESIGN.md §5 C20"),
}

NOT_YET = {}

def main():
    props = [json.loads(l) for l in open("/verif/properties.jsonl")]
    checks = []
    na = []
    for p in props:
        pid = p["id"]
        if pid in CHECKS:
            eng, cat, tech, text, note, ref = CHECKS[pid]
            checks.append({
                "property_id": pid,
                "quick_cmd": f"./check {pid} quick",
                "thorough_cmd": f"./check {pid} thorough",
                "evidence_file": f"/verif/evidence/{pid}.json",
                "replay_cmd_template": f"./check {pid} --replay {{path}}",
                "engine": eng,
                "level_claimed": {"category": cat, "text": text, "design_ref": ref},
                "level_note": note,
                "technique": tech,
            })
        else:
            na.append({"property_id": pid,
                       "reason": NOT_YET.get(pid, "check under construction in this round (see DESIGN.md §5 for the planned generator/oracle); not claimed until it runs green on the unchanged tree")})
    m = {
        "version": 1,
        "setup_cmd": "cd /verif/harness && CARGO_NET_OFFLINE=true cargo build --release --offline",
        "hooks": {
            "guard": "cargo feature `verif` of rustradio",
            "enable": "harness/Cargo.toml depends on rustradio {path=/repo, features=[verif]}; every ./check rebuilds from /repo's working tree",
            "baseline_off_cmd": "cd /repo && cargo test --workspace --no-fail-fast --offline",
            "source_commits": [c.split()[0] for c in HOOK_COMMITS],
            "add_only": True,
            "add_only_note": "no line of the library's own code is rewritten or deleted by any hook commit; 79ee436 (sleep durations) and 74ea389 (notification-faithful waits) extend src/verif.rs - the shim file that ea4a661 added - and in doing so rewrite four lines of that file (the Condvar shim's struct and constructor, its notify_all arm and the sleep arm)",
        },
        "engines": [
            {"name": "E1 ring model", "path": "harness/src/ring.rs", "serves_properties": ["C01", "C02", "C18"],
             "kind_free_text": "proptest op-history generator + reference queue/tag model + interpreter"},
            {"name": "E2 drip-feed driver", "path": "harness/src/drip.rs, harness/src/catalog.rs, harness/src/dripcase.rs",
             "serves_properties": ["C08", "C09", "C10", "C12", "C13", "C16", "C19"],
             "kind_free_text": "plays both neighbours of one block on small streams; generated feed/free/work schedules; per-call observations"},
            {"name": "E4 schedule explorer", "path": "harness/src/sched.rs (+ /repo src/verif.rs shim)", "serves_properties": ["C03", "C04", "C05", "C07", "C17"],
             "kind_free_text": "shuttle coroutine runtime with a custom scheduler fed by a proptest-generated decision stream; fair continuation; lock/unlock/wait/notify/spawn/join/sleep/drop are scheduling points"},
            {"name": "E5 graph generator + reference executor", "path": "harness/src/graphgen.rs", "serves_properties": ["C05", "C06", "C07"],
             "kind_free_text": "recipe -> graph (built twice), sequential reference executor, wrapper blocks for cancellation/failure accounting"},
            {"name": "E6 OS fault harness", "path": "harness/src/osfault.rs", "serves_properties": ["C17", "C18"],
             "kind_free_text": "/proc readers; the harness binary re-executes itself in child modes (rlimit, mapcount, sink, churn, fsize, nofile) for rlimits, map-count exhaustion and SIGKILL"},
            {"name": "E7 fuzz entries", "path": "harness/src/fuzz_entry.rs, harness/fuzz/ (cargo-fuzz), corpus/", "serves_properties": ["C15"],
             "kind_free_text": "byte -> structured-argument decoders with the oracle inside the target; shared by proptest runs, libFuzzer+ASan campaigns and single-input replay"},
            {"name": "E3 reference models", "path": "harness/src/refmodel.rs", "serves_properties": ["C10", "C11", "C13", "C14", "C20"],
             "kind_free_text": "independent executable specifications (bitwise CRC, HDLC framer, resampler index map, LFSR, DFT, ...)"},
        ],
        "checks": checks,
        "not_applicable": na,
        "notes": "All checks: ./check <ID> <tier>; exit 0 held / 1 VIOLATION / 2 infrastructure. VERIF_SEED seeds every generator; VERIF_JOBS (default 16) worker threads. known_findings.txt lists open findings and repaired defects; regress/<ID>/*.json are shrunk cases replayed first on every run.",
    }
    json.dump(m, open("/verif/MANIFEST.json", "w"), indent=1)
    print("checks:", [c["property_id"] for c in checks], "na:", len(na))

main()
